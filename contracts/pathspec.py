"""Abstract model of `pathlib` paths, shared by the sidecar modules that reason about paths (C12, C15).

A path object is opaque; its *denotation* is an element of an uninterpreted domain of pure paths
(an integer id in the proof, a `PurePosixPath` natively).  The vocabulary

    P(s)        the pure path written as the string s            pathlib.PurePosixPath(s)
    join(a, b)  a / b
    is_abs(a)   a.is_absolute()
    pstr(a)     str(a)

is uninterpreted; the few facts of pathlib the proofs use are *instantiated* where the terms are
created (no quantifiers) and are cross-checked against CPython by `check_pathlib_axioms`:

    A1  is_abs(P(s))  <=>  s.startswith('/')
    A2  is_abs(b)  =>  join(a, b) == b                (an absolute right operand replaces the left one)
    A3  not is_abs(b)  =>  is_abs(join(a, b)) == is_abs(a)
    A4  join(join(a, b), c) == join(a, join(b, c))
    A5  join(a, P('')) == a
    A6  P(pstr(a)) == a
    A7  prefix(a, 0) == P('')  and  prefix(a, len(parts(a))) == a      (prefix(a, i): the first i parts joined)
    A8  join(prefix(a, i), P(parts(a)[i])) == prefix(a, i + 1)
    A9  is_abs(a)  <=>  len(parts(a)) > 0 and parts(a)[0] starts with '/'
    A10 join(parent(a), P(name(a))) == a   unless name(a) == ''
    A11 name(P(s)) == s for a single component s (no '/', not '' or '.'); suffix(a) == pathlib_suffix_of_name(name(a))

`Path.cwd()` reads the ghost `cwd` (interp.st.ghost['cwd']) at the time of the call; `os.chdir`
sets it.  Everything here is native Python when executed outside the verifier (replays)."""
import os
import pathlib

try:
    import z3
except ImportError:  # replays run under the repository's interpreter, without z3
    z3 = None

from pyvc.api import Interface, Method, Iface, Int, Bool, Any_, new_opaque
from pyvc.values import SInt, SStr, Opaque, to_z3, wrap


# ------------------------------------------------------------------------------ spec vocabulary (native meaning)

def P(s):
    """the pure path written as the string s"""
    return pathlib.PurePosixPath(s)


def join(a, b):
    return a / b


def path_axioms():
    """Proof level: makes A2-A5 available as QUANTIFIED facts (with patterns) on this path -- for clauses whose
    instances are not syntactic (a variable known to equal a join).  Natively: True.  Used sparingly: with
    quantified facts a refutation comes back as `unknown` instead of a counter-model."""
    return True


def name0(a):
    """name_of(a), for use inside quantified clauses (proof: the bare term)"""
    return a.name


def P0(s):
    """P(s), for use inside quantified clauses (proof: the bare term, no axiom instances)"""
    return pathlib.PurePosixPath(s)


def join0(a, b):
    """join(a, b), for use inside quantified clauses (proof: the bare term, no axiom instances)"""
    return a / b


def is_abs(a):
    return a.is_absolute()


def pstr(a):
    return str(a)


def den(path):
    """denotation of a path object"""
    return pathlib.PurePosixPath(path)


def parts_of(a):
    """the components of the pure path a"""
    return a.parts


def prefix(a, i):
    """the pure path made of the first i components of a"""
    return pathlib.PurePosixPath(*a.parts[:i])


def parent_of(a):
    return a.parent


def name_of(a):
    return a.name


def cwd_now(ghost=None):
    """the current directory at the time the clause is evaluated (proof: the ghost `cwd`)"""
    return pathlib.PurePosixPath(os.getcwd())


# ------------------------------------------------------------------------------ symbolic meaning

def _fn(name, *sorts):
    return z3.Function(name, *sorts)


def _of_str():
    return _fn('path.P', z3.StringSort(), z3.IntSort())


def _join():
    return _fn('path.join', z3.IntSort(), z3.IntSort(), z3.IntSort())


def _abs():
    return _fn('path.is_abs', z3.IntSort(), z3.BoolSort())


def _str():
    return _fn('path.str', z3.IntSort(), z3.StringSort())


def _nparts():
    return _fn('path.nparts', z3.IntSort(), z3.IntSort())


def _part():
    return _fn('path.part', z3.IntSort(), z3.IntSort(), z3.StringSort())


def _prefix():
    return _fn('path.prefix', z3.IntSort(), z3.IntSort(), z3.IntSort())


def _parent():
    return _fn('path.parent', z3.IntSort(), z3.IntSort())


def _name():
    return _fn('path.name', z3.IntSort(), z3.StringSort())


def _once(interp, kind, t):
    """True the first time the axiom instances for term t are requested on this path"""
    seen = interp.st.ghost.setdefault('__path_axiom_instances__', set())
    key = (kind, t.sexpr())
    if key in seen:
        return False
    seen.add(key)
    return True


def _term(v):
    if isinstance(v, SInt):
        return v.t
    if isinstance(v, int):
        return z3.IntVal(v)
    raise TypeError('not a pure-path denotation: %r' % (v,))


def mk_of_str(interp, s):
    st = to_z3(s) if not z3.is_expr(s) else s
    t = _of_str()(st)
    if _once(interp, 'P', t):
        interp.st.assume(_abs()(t) == z3.PrefixOf(z3.StringVal('/'), st))  # A1
    return SInt(t)


def _is_join(t):
    return z3.is_app(t) and t.decl().name() == 'path.join' and t.num_args() == 2


def _quantified_axioms(interp):
    """A2-A5 once per path as quantified facts with patterns: E-matching finds the instances that are not
    syntactic (e.g. when the left operand is a variable known to EQUAL a join)"""
    if not _once(interp, 'axioms', z3.IntVal(0)):
        return
    a, b, c = z3.Ints('path!a path!b path!c')
    J, ab = _join(), _abs()
    empty = _of_str()(z3.StringVal(''))
    st = interp.st
    st._add(z3.ForAll([a, b, c], J(J(a, b), c) == J(a, J(b, c)), patterns=[J(J(a, b), c)]))  # A4
    st._add(z3.ForAll([a], J(a, empty) == a, patterns=[J(a, empty)]))  # A5
    st._add(z3.ForAll([a, b], z3.And(z3.Implies(ab(b), J(a, b) == b),
                                     z3.Implies(z3.Not(ab(b)), ab(J(a, b)) == ab(a))), patterns=[J(a, b)]))  # A2, A3


def mk_join(interp, a, b):
    ta, tb = _term(a), _term(b)
    t = _join()(ta, tb)
    if _once(interp, 'join', t):
        ab = _abs()
        interp.st.assume(z3.Implies(ab(tb), t == tb))  # A2
        interp.st.assume(z3.Implies(z3.Not(ab(tb)), ab(t) == ab(ta)))  # A3
        interp.st.assume(z3.Implies(tb == _of_str()(z3.StringVal('')), t == ta))  # A5
        if _is_join(ta):  # A4, left nested
            x, y = ta.arg(0), ta.arg(1)
            inner = mk_join(interp, SInt(y), SInt(tb))
            outer = mk_join(interp, SInt(x), inner)
            interp.st.assume(t == outer.t)
        if _is_join(tb):  # A4, right nested
            y, z = tb.arg(0), tb.arg(1)
            left = mk_join(interp, SInt(ta), SInt(y))
            outer = mk_join(interp, left, SInt(z))
            interp.st.assume(t == outer.t)
    return SInt(t)


def mk_str(interp, a):
    ta = _term(a)
    t = _str()(ta)
    if _once(interp, 'str', t):
        interp.st.assume(_of_str()(t) == ta)  # A6
        interp.st.assume(_abs()(ta) == z3.PrefixOf(z3.StringVal('/'), t))  # A1 at P(pstr(a)) == a
    return SStr(t)


def mk_parts(interp, a):
    """the components of a pure path: a sequence of symbolic length"""
    from pyvc.values import SList
    ta = _term(a)
    n = _nparts()(ta)
    if _once(interp, 'parts', ta):
        interp.st.assume(n >= 0)
        interp.st.assume(_prefix()(ta, 0) == _of_str()(z3.StringVal('')))  # A7
        interp.st.assume(_prefix()(ta, n) == ta)  # A7
        interp.st.assume(_abs()(ta) == z3.And(n > 0, z3.PrefixOf(z3.StringVal('/'), _part()(ta, 0))))  # A9

    def elem(interp2, idx):
        i = idx if z3.is_expr(idx) else z3.IntVal(idx)
        t = _part()(ta, i)
        if _once(interp2, 'part', t):
            # A8 at this index
            step = mk_join(interp2, SInt(_prefix()(ta, i)), mk_of_str(interp2, SStr(t)))
            interp2.st.assume(z3.Implies(z3.And(i >= 0, i < n), step.t == _prefix()(ta, i + 1)))
        return SStr(t)

    return SList(n, elem, 'parts(%s)' % ta.sexpr()[:40])


def mk_prefix(interp, a, i):
    ta = _term(a)
    mk_parts(interp, a)
    ti = to_z3(i) if not z3.is_expr(i) else i
    return SInt(_prefix()(ta, ti))


def mk_parent(interp, a):
    ta = _term(a)
    t = _parent()(ta)
    if _once(interp, 'parent', t):
        nm = _name()(ta)
        j = mk_join(interp, SInt(t), mk_of_str(interp, SStr(nm)))
        interp.st.assume(z3.Implies(nm != z3.StringVal(''), j.t == ta))  # A10
    return SInt(t)


def mk_name(interp, a):
    mk_parent(interp, a)
    ta = _term(a)
    nm = _name()(ta)
    # A11: the name of P(s) is s when s is a single component (no '/', not '' and not '.')
    if z3.is_app(ta) and ta.decl().name() == 'path.P' and _once(interp, 'name-of-P', ta):
        st = ta.arg(0)
        interp.st.assume(z3.Implies(z3.And(z3.Not(z3.Contains(st, z3.StringVal('/'))), st != z3.StringVal(''),
                                           st != z3.StringVal('.')), nm == st))
    return SStr(nm)


def pathlib_suffix_of_name(name):
    """pathlib's PurePath.suffix as a function of the final component (cross-checked against CPython): the part from
    the last dot, unless that dot is the first or the last character of the name"""
    i = name.rfind('.')
    if 0 < i < len(name) - 1:
        return name[i:]
    return ''


def pid_of(interp, x):
    """denotation of anything pathlib accepts as a path segment"""
    from pyvc.values import SOpt, SChoice
    if isinstance(x, (SOpt, SChoice)):      # (an optional path after its `is None` test)
        x = interp.resolve(x)
    if isinstance(x, Opaque):
        return interp.getattr(x, 'pid')
    if isinstance(x, (str, SStr)):
        return mk_of_str(interp, x)
    if isinstance(x, pathlib.PurePath):
        return mk_of_str(interp, str(x))
    if isinstance(x, (SInt, int)):
        return x
    from pyvc.path import Unsupported
    raise Unsupported('pathspec: not a path: %r' % (x,))


def _m_P(interp, args, kwargs):
    return mk_of_str(interp, args[0])


def _m_join(interp, args, kwargs):
    return mk_join(interp, args[0], args[1])


def _m_path_axioms(interp, args, kwargs):
    _quantified_axioms(interp)
    return True


def _m_name0(interp, args, kwargs):
    return SStr(_name()(_term(args[0])))


def _m_P0(interp, args, kwargs):
    s = args[0]
    return SInt(_of_str()(to_z3(s) if not z3.is_expr(s) else s))


def _m_join0(interp, args, kwargs):
    return SInt(_join()(_term(args[0]), _term(args[1])))


def _m_is_abs(interp, args, kwargs):
    return wrap(_abs()(_term(args[0])))


def _m_pstr(interp, args, kwargs):
    return mk_str(interp, args[0])


def _m_den(interp, args, kwargs):
    return pid_of(interp, args[0])


def _m_parts_of(interp, args, kwargs):
    return mk_parts(interp, args[0])


def _m_prefix(interp, args, kwargs):
    return mk_prefix(interp, args[0], args[1])


def _m_parent_of(interp, args, kwargs):
    return mk_parent(interp, args[0])


def _m_name_of(interp, args, kwargs):
    return mk_name(interp, args[0])


def ghost_cwd(interp):
    """the opaque path object that is the current directory now"""
    g = interp.st.ghost
    if 'cwd' not in g:
        o = new_opaque(interp, PathI, 'cwd')
        # environment: the current directory of a process is an absolute path
        interp.st.assume(_abs()(_term(interp.getattr(o, 'pid'))))
        g['cwd'] = o
    return g['cwd']


def _m_cwd_now(interp, args, kwargs):
    return interp.getattr(ghost_cwd(interp), 'pid')


# ------------------------------------------------------------------------------ opaque path objects

def new_path(interp, pid, name='path', iface=None):
    return new_opaque(interp, iface or PathI, name, preset={'pid': pid})


def _div(interp, self, args, kwargs):
    other = pid_of(interp, args[0])
    return new_path(interp, mk_join(interp, interp.getattr(self, 'pid'), other), 'joined', self._pv_iface)


def _rdiv(interp, self, args, kwargs):
    other = pid_of(interp, args[0])
    return new_path(interp, mk_join(interp, other, interp.getattr(self, 'pid')), 'joined', self._pv_iface)


def _joinpath(interp, self, args, kwargs):
    r = self
    for a in args:
        r = _div(interp, r, [a], {})
    return r


def _is_absolute(interp, self, args, kwargs):
    return wrap(_abs()(_term(interp.getattr(self, 'pid'))))


def _to_str(interp, self, args, kwargs):
    return mk_str(interp, interp.getattr(self, 'pid'))


def _cwd(interp, self, args, kwargs):
    interp.st.emit('cwd-read', ghost_cwd(interp))
    return ghost_cwd(interp)


def _parts_attr(interp, o):
    return mk_parts(interp, interp.getattr(o, 'pid'))


def _parent_attr(interp, o):
    return new_path(interp, mk_parent(interp, interp.getattr(o, 'pid')), 'parent', o._pv_iface)


def _name_attr(interp, o):
    return mk_name(interp, interp.getattr(o, 'pid'))


def _suffix_attr(interp, o):
    return interp.call(pathlib_suffix_of_name, [mk_name(interp, interp.getattr(o, 'pid'))], {})


class PurePathI(Interface):
    """pathlib.PurePosixPath seen through its denotation `pid`"""
    target_class = pathlib.PurePosixPath
    attrs = {'pid': Int}
    computed = {'parts': _parts_attr, 'parent': _parent_attr, 'name': _name_attr, 'suffix': _suffix_attr}
    methods = {
        '__truediv__': Method(model=_div),
        '__rtruediv__': Method(model=_rdiv),
        'joinpath': Method(model=_joinpath),
        'is_absolute': Method(model=_is_absolute),
        '__str__': Method(model=_to_str),
        '__fspath__': Method(model=_to_str),
    }


class FileObjI(Interface):
    """an open file: a context manager; everything done with it is a ghost event"""
    methods = {
        'close': Method(event='close'),
        'write': Method(event='write', may_raise=(OSError,)),
        '__enter__': Method(model=lambda interp, self, args, kwargs: self),
        '__exit__': Method(model=lambda interp, self, args, kwargs: (interp.st.emit('close', self, ()), False)[1]),
    }


def _fs(event, returns=None, raises=(OSError,)):
    return Method(event=event, returns=returns, may_raise=raises)


# ---- what exists: the ghost state of the file system, with symbolic links distinguished from what they point to
#   entry(t, p)   at time t the directory of p has an entry named as p says -- of ANY kind, also a symbolic link that
#                 points nowhere (what lstat sees)
#   target(t, p)  at time t p leads to a file, symbolic links followed (what exists() sees);  target => entry
# `t` is the ghost counter st.ghost['fs_epoch']: every operation that may change the file system advances it
# (`fs_changed`), after which nothing is known about the new state.

def _entry_fn():
    return _fn('fs.entry', z3.IntSort(), z3.IntSort(), z3.BoolSort())


def _target_fn():
    return _fn('fs.target', z3.IntSort(), z3.IntSort(), z3.BoolSort())


def _epoch(interp):
    e = interp.st.ghost.setdefault('fs_epoch', 0)
    return to_z3(e) if not z3.is_expr(e) else e


def fs_changed(interp):
    interp.st.ghost['fs_epoch'] = wrap(z3.simplify(_epoch(interp) + 1))


def mk_entry_exists(interp, pid):
    t = _entry_fn()(_epoch(interp), _term(pid))
    interp.st.assume(z3.Implies(_target_fn()(_epoch(interp), _term(pid)), t))
    return wrap(t)


def mk_target_exists(interp, pid):
    t = _target_fn()(_epoch(interp), _term(pid))
    interp.st.assume(z3.Implies(t, _entry_fn()(_epoch(interp), _term(pid))))
    return wrap(t)


def entry_exists(a):
    """NOW there is a directory entry of any kind (file, directory, symbolic link -- also a dangling one) at a"""
    return os.path.lexists(str(a))


def target_exists(a):
    """NOW a leads to a file or directory, symbolic links followed"""
    return os.path.exists(str(a))


def _lstat(interp, self, args, kwargs):
    """lstat(): FileNotFoundError iff there is no entry of any kind (the directory of the path is assumed to be
    accessible: it is the directory that is being populated)"""
    from pyvc.interp import PyRaise
    interp.st.emit('lstat', self, ())
    if interp.branch(mk_entry_exists(interp, interp.getattr(self, 'pid'))):
        return Any_.make(interp, 'stat_result')
    raise PyRaise(FileNotFoundError(2, 'No such file or directory'))


def _exists(interp, self, args, kwargs):
    interp.st.emit('exists', self, ())
    return mk_target_exists(interp, interp.getattr(self, 'pid'))


def _iterdir(interp, self, args, kwargs):
    """iterdir(): OSError, or the entries of the directory: paths dir/NAME, NAME a single component other than
    '.' and '..' (each entry once, names distinct)"""
    from pyvc.interp import PyRaise
    from pyvc.api import ListOf
    a = self._pv_attrs
    if '__iterdir__' not in a:
        if interp.st.choose(2) == 1:
            raise PyRaise(PermissionError(13, 'iterdir'))
        xs = ListOf(Iface(PathI)).make(interp, self._pv_uid + '.iterdir()')
        a['__iterdir__'] = xs
    return a['__iterdir__']


class PathI(PurePathI):
    """pathlib.Path (PosixPath): additionally `cwd()`, which reads the ghost current directory, and the
    file-system operations, which are ghost events ('<op>', path, args) that may fail with OSError"""
    target_class = pathlib.PosixPath
    methods = {
        'cwd': Method(model=_cwd),
        'lstat': Method(model=_lstat),
        'stat': _fs('stat', Any_, (FileNotFoundError, NotADirectoryError, PermissionError)),
        'open': _fs('open', Iface(FileObjI)),
        'unlink': _fs('unlink'),
        'mkdir': _fs('mkdir', None, (FileExistsError, NotADirectoryError, PermissionError)),
        'is_dir': _fs('is_dir', Bool, (NotADirectoryError,)),
        'is_file': _fs('is_file', Bool, ()),
        'exists': Method(model=_exists),
        'iterdir': Method(model=_iterdir),
    }


# a path object is determined by its denotation: it can be an element of a symbolic mutable list
PurePathI.mlist_codec = (('int',), lambda interp, o: [interp.getattr(o, 'pid')],
                         lambda interp, scalars: new_path(interp, scalars[0], 'path', PurePathI))
PathI.mlist_codec = (('int',), lambda interp, o: [interp.getattr(o, 'pid')],
                     lambda interp, scalars: new_path(interp, scalars[0], 'path', PathI))

PATH = Iface(PathI)


def _construct(iface):
    def m(interp, args, kwargs):
        if not args:
            return new_path(interp, mk_of_str(interp, ''), 'path', iface)
        pid = pid_of(interp, args[0])
        for a in args[1:]:
            pid = mk_join(interp, pid, pid_of(interp, a))
        return new_path(interp, pid, 'path', iface)

    return m


def _m_chdir(interp, args, kwargs):
    """os.chdir(p): the current directory becomes cwd / p"""
    new = mk_join(interp, interp.getattr(ghost_cwd(interp), 'pid'), pid_of(interp, args[0]))
    o = new_path(interp, new, 'cwd')
    interp.st.assume(_abs()(new.t))
    interp.st.ghost['cwd'] = o
    interp.st.emit('chdir', o)
    return None


def install(M):
    """register the models with a sidecar module (they apply to the functions of its property only)"""
    M.model(P, _m_P)
    M.model(join, _m_join)
    M.model(P0, _m_P0)
    M.model(path_axioms, _m_path_axioms)
    M.model(join0, _m_join0)
    M.model(is_abs, _m_is_abs)
    M.model(pstr, _m_pstr)
    M.model(den, _m_den)
    M.model(cwd_now, _m_cwd_now)
    M.model(parts_of, _m_parts_of)
    M.model(prefix, _m_prefix)
    M.model(parent_of, _m_parent_of)
    M.model(entry_exists, lambda interp, args, kwargs: mk_entry_exists(interp, args[0]))
    M.model(target_exists, lambda interp, args, kwargs: mk_target_exists(interp, args[0]))
    M.model(name0, _m_name0)
    M.model(name_of, _m_name_of)
    M.model(pathlib.Path, _construct(PathI))
    M.model(pathlib.PosixPath, _construct(PathI))
    M.model(pathlib.PurePosixPath, _construct(PurePathI))
    M.model(pathlib.PurePath, _construct(PurePathI))
    M.model(os.chdir, _m_chdir)
    M.trust('pathlib: paths are opaque, `/` is the uninterpreted join; assumed facts A1-A6 of contracts/pathspec.py '
            '(absolute right operand replaces the left one, associativity, P(str(p)) == p ...), cross-checked against '
            'CPython on every run by the obligation `pathlib axioms`')
    M.trust('Path.cwd() returns the current directory of the process at the time of the call (ghost `cwd`, an absolute '
            'path); os.chdir(p) sets it to cwd/p')


# ------------------------------------------------------------------------------ cross-check against CPython

def check_pathlib_axioms(ctx, max_len=4):
    """A1-A6 on every string over {'/', 'a', '.'} up to max_len (pairs/triples up to a smaller length)."""
    import itertools
    alphabet = '/a.'
    strs = [''.join(t) for n in range(max_len + 1) for t in itertools.product(alphabet, repeat=n)]
    small = [s for s in strs if len(s) <= 3]
    tiny = [s for s in strs if len(s) <= 2]
    PP = pathlib.PurePosixPath
    bad = {k: [] for k in ('A1', 'A2', 'A3', 'A4', 'A5', 'A6')}
    for s in strs:
        if PP(s).is_absolute() != s.startswith('/'):
            bad['A1'].append(s)
        if PP(str(PP(s))) != PP(s):
            bad['A6'].append(s)
        if PP(s) / PP('') != PP(s) or pathlib.Path(s) / pathlib.Path('') != pathlib.Path(s):
            bad['A5'].append(s)
    for a in small:
        for b in small:
            j = PP(a) / PP(b)
            if PP(b).is_absolute() and j != PP(b):
                bad['A2'].append((a, b))
            if not PP(b).is_absolute() and j.is_absolute() != PP(a).is_absolute():
                bad['A3'].append((a, b))
            if PP(a) / b != j:
                bad['A2'].append(('str-operand', a, b))
    for a in tiny:
        for b in tiny:
            for c in tiny:
                if (PP(a) / PP(b)) / PP(c) != PP(a) / (PP(b) / PP(c)):
                    bad['A4'].append((a, b, c))
    bad.update({k: [] for k in ('A7', 'A8', 'A9', 'A10')})
    for s in strs:
        p = PP(s)
        n = len(p.parts)
        if PP(*p.parts[:0]) != PP('') or PP(*p.parts[:n]) != p:
            bad['A7'].append(s)
        for i in range(n):
            if PP(*p.parts[:i]) / PP(p.parts[i]) != PP(*p.parts[:i + 1]):
                bad['A8'].append((s, i))
        if p.is_absolute() != (n > 0 and p.parts[0].startswith('/')):
            bad['A9'].append(s)
        if p.name != '' and p.parent / PP(p.name) != p:
            bad['A10'].append(s)
    bad['A11'] = [x for x in strs if '/' not in x and x not in ('', '.')
                  and (PP(x).name != x or PP(x).suffix != pathlib_suffix_of_name(x))]
    # L1 (used in the argument "nothing is created outside the populated directory", not in a proof): a relative
    # path without a '..' component, joined to d, lies under d
    bad['L1'] = []
    for d in small:
        for s in strs:
            p = PP(s)
            if not p.is_absolute() and '..' not in p.parts:
                j = PP(d) / p
                if j.parts[:len(PP(d).parts)] != PP(d).parts:
                    bad['L1'].append((d, s))
    for k, v in bad.items():
        ctx.obligation('pathlib axioms: %s holds in CPython on all strings over {/,a,.} up to length %d' % (k, max_len),
                       not v, 'enumeration', detail={'counterexamples': v[:5], 'strings': len(strs)})
