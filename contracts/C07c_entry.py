"""C07 (extension D7) -- the entry of the document parser: DocumentParser.parse_source.
Property statement: error reports carry "the chain of including files"; "cyclic inclusion [is] reported as an error".
For the ROOT file this starts here: the root file's location has an EMPTY inclusion chain and names the given path;
the visited paths start with the resolved path of the root file itself (so that a file that includes the root file
is a cycle); files named in the root file are relative to the directory of the root file.
`_parse` (abstract in DocumentParser; DocumentParserForSectionsConfiguration._parse = _parse_source + build_document,
both under contract in C07_document.py) is the environment here: its call is a ghost event.
pathlib: the abstract pathlib of contracts/pathspec.py; `resolve()` is an uninterpreted function of the path (as
assumed in C07_document.py: it does not change while one document is read) that may raise RuntimeError."""
import pathlib

from pyvc.api import Module, Interface, Method, Iface, Inst, Int, Bool, Str, Opt, ListOf, Any_
from pyvc.interp import PyRaise
from pyvc.values import SInt
from contracts import pathspec
from contracts.pathspec import den, join, parent_of, is_abs, P, cwd_now
from contracts.C07_document import PARSE_SOURCE

from exactly_lib.section_document import document_parser as dpm
from exactly_lib.section_document.exceptions import FileAccessError

M = Module('C07')
pathspec.install(M)

P_DPM = 'exactly_lib.section_document.document_parser'


def resolved(a):
    """the denotation of path.resolve() for the path denoted by a (natively: of the pure path, for replays)"""
    return pathlib.PurePosixPath(pathlib.Path(a).resolve())


def _resolved_term(interp, pid):
    import z3
    return SInt(z3.Function('path.resolved', z3.IntSort(), z3.IntSort())(pathspec._term(pid)))


M.model(resolved, lambda interp, args, kwargs: _resolved_term(interp, args[0]))


def _resolve(interp, self, args, kwargs):
    if interp.st.choose(2) == 1:
        raise PyRaise(RuntimeError('Symlink loop'))
    return pathspec.new_path(interp, _resolved_term(interp, interp.getattr(self, 'pid')), 'resolved', PathRI)


class PathRI(pathspec.PathI):
    """a pathlib.Path with resolve()"""
    methods = {'resolve': Method(model=_resolve)}


PathRI.mlist_codec = None
PATH_R = Iface(PathRI)

M.trust('Path.resolve(): an uninterpreted function of the path (constant while one document is read), or RuntimeError')
M.model(pathlib.Path.cwd.__func__, lambda interp, args, kwargs: pathspec.new_path(
    interp, interp.getattr(pathspec.ghost_cwd(interp), 'pid'), 'cwd', PathRI))

M.assume('DocumentParser._parse is abstract: what it does (DocumentParserForSectionsConfiguration._parse = _parse_source '
         'followed by build_document, both under contract) is the environment of parse_source; its call is a ghost event')
M.contract(P_DPM + ':DocumentParser._parse', trusted=True, event='document-parse',
           params=dict(self=Inst(dpm.DocumentParser), file_reference_relativity_root_dir=Any_, file_location_info=Any_,
                       visited_paths=Any_, source=Any_),
           returns=Any_, may_raise=(FileAccessError,), ensures={})


def _root_dir(path_den, cwd_den):
    """the directory that the paths in the root file are relative to"""
    first = P('/') if is_abs(path_den) else resolved(cwd_den)
    return join(first, parent_of(path_den))


def _parsed_as_the_root_file(trace, source_file_path, source, cwd_den):
    calls = [e for e in trace if e[0] == 'document-parse']
    if len(calls) != 1:
        return False
    a = calls[0][1]
    info = a['file_location_info']
    visited = a['visited_paths']
    return a['source'] is source \
        and info.file_path_rel_referrer is source_file_path \
        and len(info.file_inclusion_chain) == 0 \
        and len(visited) == 1 and den(visited[0]) == resolved(den(source_file_path)) \
        and den(a['file_reference_relativity_root_dir']) == _root_dir(den(source_file_path), cwd_den)


M.contract(P_DPM + ':DocumentParser.parse_source',
           params=dict(self=Inst(dpm.DocumentParser), source_file_path=PATH_R, source=PARSE_SOURCE),
           old=lambda: cwd_now(),
           may_raise=(FileAccessError, RuntimeError),
           ensures={
               'parsed-once-as-the-root-file: empty inclusion chain, visited = [its resolved path], relative to its directory':
                   lambda trace, source_file_path, source, old: _parsed_as_the_root_file(trace, source_file_path, source, old),
               'the-document-is-what-_parse-returned': lambda trace, result:
               [e[2] is result for e in trace if e[0] == 'document-parse:returned'] == [True],
           }, raises_only=())
