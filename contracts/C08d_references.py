"""C08, "defined before use ... type-checked": a value REPORTS the symbol references of everything that is resolved when
it is resolved, else the references are never validated.  `-rel-here` paths (an absolute root + a suffix that may hold
references): `_PathSdvOfAbsPathAndSuffixSdv.references` are those of the suffix (seeded change C08-s10: returned `()`).
The stacked path value (`-rel SYMBOL suffix`: base symbol's own suffix, then the stacked suffix -- seeded C08-s11) is
proved for C12 (contracts/C12_paths.py: `_StackedPathDdv.*`); those contracts carry C08 ("substituted faithfully") too.
The actors' counterpart is contracts/C03c_programs.py."""
from pyvc.api import Module, Interface, Iface, Inst, ListOf, Any_

from exactly_lib.impls.types.path import parse_path

M = Module('C08')


class PathPartSdvI(Interface):
    """the suffix of a path: its references (opaque objects) and what it resolves to"""
    by_id = True
    attrs = {'references': ListOf(Any_)}


M.contract('exactly_lib.impls.types.path.parse_path:_PathSdvOfAbsPathAndSuffixSdv.references',
           props=('C08', 'C12', 'C03'),
           params=dict(self=Inst(parse_path._PathSdvOfAbsPathAndSuffixSdv, abs_path_root=Any_,
                                 path_suffix_sdv=Iface(PathPartSdvI))),
           returns=ListOf(Any_),
           ensures={'the references of the suffix': lambda self, result: result is self.path_suffix_sdv.references},
           raises_only=())


def _share():
    from contracts.common import share_contracts
    names = share_contracts('C08', 'contracts.C12_paths', lambda q: ':_StackedPathDdv.' in q)
    assert names, names


M.after_load = _share
