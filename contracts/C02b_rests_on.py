"""C02 rests on facts proved for other properties (DESIGN A.4); their contracts carry C02 too and are re-proved here:

 * which KIND of failure a step reports -- an [assert] instruction that RETURNS a hard error is HARD_ERROR (exit 128),
   not FAIL (32 / XFAIL) -- is decided by the result translators of execution/impl/phase_step_executors.py (C01)
   (seeded change C02-s7);
 * the `status` in force is the one set last in the [conf] phase, and the [conf] contents of the suite come BEFORE the
   case's own (C17: `_TestCaseInstructionsFromTestSuiteAdder.transform`), so the case's `status` wins (seeded change
   C02-s8: the operands swapped => XPASS / XFAIL / SKIPPED instead of PASS / FAIL / XFAIL)."""
from pyvc.api import Module

M = Module('C02')


def _share():
    from contracts.common import share_contracts
    from contracts import C01_protocol as c01
    share_contracts('C02', 'contracts.C01_protocol',
                    lambda q: q.startswith('exactly_lib.execution.impl.phase_step_executors:'))
    share_contracts('C02', 'contracts.C17_independence',
                    lambda q: q.endswith(':_TestCaseInstructionsFromTestSuiteAdder.transform'))


M.after_load = _share
