"""C08 (extension M12) -- "In an accepted test case each reference evaluates to the defined value: ... paths as absolute
paths": a leading symbol reference of a path argument (`@[S]@`, `@[S]@/sub/@[leaf]@`).

The functions that substitute the symbol -- `path_from_symbol_reference`: the visitor
`_WStrRenderingValueSymbol2PathResolverVisitor` (visit_path / visit_string / visit_list) and
`SdvThatIsIdenticalToReferencedPathOrWithStringValueAsSuffix.resolve` -- are under contract in contracts/C12_paths.py
(the relativity root is C12's).  Their clauses ARE the C08 statement for this kind of reference:

 * a STRING symbol: the path is the symbol's string value followed by ALL the suffix components (the whole resolved
   suffix, nothing dropped, in order) -- clause `string-and-suffix`; it is absolute iff that text is absolute, else
   relative to the default relativity of the argument -- clause `default-relativity-unless-absolute`;
 * a PATH symbol: the referenced path joined with the suffix, relativity of the referenced path;
 * a LIST symbol cannot be substituted (ValueError; excluded before resolution by the reference restrictions).

The contracts are SHARED: they carry both property ids, so `pyvc.check C08` proves them too and a change of this
substitution is reported under C08 (seeded C08-s9 was only visible under C12).  `PathSdvRelSymbol.resolve`
(`-rel SYMBOL`) is not shared: its clause `well-formed` is C12's known finding (absolute suffix, doc/BUGS.rst), a
statement about the relativity root and not about substitution."""
from pyvc.api import Module
from contracts import C12_paths

M = Module('C08')

SHARED_WITH_C08 = (
    C12_paths.P_SDV + '.path_from_symbol_reference:_WStrRenderingValueSymbol2PathResolverVisitor.visit_path',
    C12_paths.P_SDV + '.path_from_symbol_reference:_WStrRenderingValueSymbol2PathResolverVisitor.visit_string',
    C12_paths.P_SDV + '.path_from_symbol_reference:_WStrRenderingValueSymbol2PathResolverVisitor.visit_list',
    C12_paths.P_SDV + '.path_from_symbol_reference:SdvThatIsIdenticalToReferencedPathOrWithStringValueAsSuffix.resolve',
)

_found = []
for _c in C12_paths.M.contracts:
    if _c.qname in SHARED_WITH_C08:
        _c.props = tuple(sorted(set(_c.props) | {'C08'}))
        _found.append(_c.qname)
assert sorted(_found) == sorted(SHARED_WITH_C08), 'C08c: a contract to share with C08 is missing in C12_paths'
