"""C06 (e') -- the recursive descent of impls/types/expression/parser.py `_Parser` BY INDUCTION.
See notes/C06.md, "## Extension P6".

`_Parser.{parse, parse_w_maybe_infix_ops, parse_w_infix_ops, infix_op_sequence_for_single_op,
parse_mandatory_primitive}` are verified each against its own contract; callers -- including the functions
themselves at their recursive calls -- use the contracts.  The result is specified by SPEC FUNCTIONS over an
abstract token sequence, written from the property statement (the documented grammar):

    E_k   ::=  E_k+1 ( op_k E_k+1 )*          one rule per precedence level, lowest precedence first;
                                               a run of the SAME operator is ONE n-ary node, operands in source order
    E_N   ::=  ( E_0 )  |  prefix-op E_N  |  symbol reference | primitive-name ARGUMENTS | symbol name
    layout:    an infix operator stands on the line of the operand before it, unless inside parentheses;
               ( and a prefix operator and the operand after an operator may stand on any line.

The world (token sequence and the meaning of the grammar's tables) is a family of RIGID uninterpreted functions
(`w_*` below): arbitrary but fixed.  The token stream is a cursor into the token sequence; the argument
parser of a primitive moves the cursor forwards by an arbitrary amount (a function of the primitive and the
position) or reports a syntax error.  Expression values are integer codes of the free term algebra of the
makers (`mk_reference`, a prefix operator's / an infix operator's `mk_expression`, a primitive's
`parse_arguments`): the parser never inspects an expression, so "the value returned is the code of the term the
documented grammar assigns to the token sequence" says that the makers were applied to exactly the documented
structure.
"""
from pyvc.api import (Module, Interface, Method, Iface, Inst, Int, Nat, Bool, Str, Opt, OneOf, Const, Union,
                      ListOf, MListOf, FixedList, Any_, EnumOf, Custom, Derived, Measure, new_opaque, assume_pred)
from pyvc.values import wrap, to_z3, SOpt, SChoice
from pyvc.interp import PyRaise
from contracts.common import implies, iff, recursive_int, rec_app

from exactly_lib.impls.types.expression import grammar as expression_grammar, parser as expression_parser
from exactly_lib.section_document.element_parsers.instruction_parser_exceptions import \
    SingleInstructionInvalidArgumentException as SIIAE
from exactly_lib.section_document.element_parsers.token_stream import TokenStream, LookAheadState
from exactly_lib.section_document.element_parsers.token_stream_parser import TokenParser
from exactly_lib.util.name_and_value import NameAndValue
from exactly_lib.util.parse.token import Token, TokenType

try:
    import z3 as _z3
except ImportError:      # replays run under the repository's interpreter, without z3
    _z3 = None

M = Module('C06')

P_PARSER = 'exactly_lib.impls.types.expression.parser'

# the functions of the descent: while one of THESE is verified, the four non-recursive helpers of `_Parser`
# (contracts in C06_expression.py, part (d), stated over the look-ahead only) are interpreted from their real source
DESCENT = tuple(P_PARSER + ':_Parser.' + n for n in (
    'parse', 'parse_w_maybe_infix_ops', 'parse_w_infix_ops', 'infix_op_sequence_for_single_op',
    'parse_mandatory_primitive'))


def in_descent(function_under_verification):
    return function_under_verification in DESCENT


# ============================================================================== the world: rigid ghost functions

def _ghost_only(*_):
    raise NotImplementedError('ghost function of the specification (no native value)')


def _rigid(name, arg_sorts, result_sort, axiom=None):
    """a spec function that is, in proofs, the uninterpreted function `name`"""

    def spec(*args):
        return _ghost_only()

    spec.__name__ = spec.__qualname__ = name

    def model(interp, args, kwargs):
        sort = {'int': _z3.IntSort, 'str': _z3.StringSort, 'bool': _z3.BoolSort}
        f = _z3.Function('c06.' + name, *([sort[s]() for s in arg_sorts] + [sort[result_sort]()]))
        ts = [to_z3(interp.resolve(a) if isinstance(a, (SOpt, SChoice)) else a) for a in args]
        t = f(*ts) if ts else _z3.Const('c06.' + name, sort[result_sort]())
        if axiom is not None:
            interp.st.assume(wrap(axiom(t, *ts)))
        return wrap(t)

    M.model(spec, model)
    return spec


# --- the token sequence: tokens 0 .. w_n()-1; cursor positions 0 .. w_n()
w_n = _rigid('w_n', (), 'int', lambda n: n >= 0)                      # number of tokens
w_string = _rigid('w_string', ('int',), 'str')                          # Token.string of token i
w_quoted = _rigid('w_quoted', ('int',), 'bool')                         # token i is quoted
w_source = _rigid('w_source', ('int',), 'str')                          # Token.source_string of token i
w_line_rest = _rigid('w_line_rest', ('int',), 'str')     # remaining_part_of_current_line with the cursor at i
w_bad_end = _rigid('w_bad_end', (), 'bool')              # the sequence ends with a token of invalid syntax
# --- the meaning of the grammar's tables
w_is_prim = _rigid('w_is_prim', ('str',), 'bool')                       # name in grammar.primitives
# position after the arguments of primitive `name` whose arguments start at p; -1: its parser reports a syntax error
w_prim_end = _rigid('w_prim_end', ('str', 'int'), 'int', lambda e, name, p: _z3.Or(e == -1, e >= p))
w_prim_fail_pos = _rigid('w_prim_fail_pos', ('str', 'int'), 'int', lambda e, name, p: e >= p)
w_prim_val = _rigid('w_prim_val', ('str', 'int'), 'int')                # what primitive `name` makes of its arguments at p
w_ref_val = _rigid('w_ref_val', ('str',), 'int')                        # grammar.mk_reference(name)
w_is_reserved = _rigid('w_is_reserved', ('str',), 'bool')               # name in grammar.custom_reserved_words
w_is_prefix = _rigid('w_is_prefix', ('str',), 'bool')                   # name in grammar.prefix_operators
w_pre_val = _rigid('w_pre_val', ('str', 'int'), 'int')                  # prefix_operators[name].mk_expression(e)
w_is_infix = _rigid('w_is_infix', ('int', 'str'), 'bool')               # name in infix_ops_inc_precedence[level]
w_snoc = _rigid('w_snoc', ('int', 'str', 'int', 'int'), 'int')          # (level, name, code of operands so far, operand)
w_seq_name = _rigid('w_seq_name', ('int', 'int'), 'str')                # infix_ops_inc_precedence__seq[level][j].name
# --- symbol syntax (C08): the same uninterpreted functions as the models of C06_expression.py
symref_illegal = _rigid('symref_illegal', ('str',), 'bool')
symref_is_ref = _rigid('symref_is_ref', ('str',), 'bool')
symref_name = _rigid('symref_name', ('str',), 'str')
is_symbol_name = _rigid('is_symbol_name', ('str',), 'bool')

from exactly_lib.symbol import symbol_syntax


def _m_parse_symbol_reference(interp, args, kwargs):
    """as in C06_expression.py (part d): a pure function of the token -- illegal name / reference to name / None"""
    if interp.branch(interp.call(symref_illegal, [args[0]], {})):
        raise PyRaise(SIIAE('Illegal symbol name'))
    if interp.branch(interp.call(symref_is_ref, [args[0]], {})):
        return interp.call(symref_name, [args[0]], {})
    return None


M.trust('descent (C06c): symbol_syntax.is_symbol_name and parse_symbol_reference__from_str are pure functions of the '
        'token string (same abstraction as in part (d), C06_expression.py; their meaning is C08\'s)')
M.model(symbol_syntax.is_symbol_name, lambda interp, args, kwargs: interp.call(is_symbol_name, [args[0]], {}))
M.model(symbol_syntax.parse_symbol_reference__from_str, _m_parse_symbol_reference)

M.assume('descent (C06c): the token stream is a cursor into a fixed token sequence (what the parser sees after a '
         'position is a function of the position); the argument parser of a primitive moves the cursor forwards '
         '(or reports a syntax error, the cursor then somewhere forwards); the makers of the grammar are '
         'functions of their arguments (rigid functions w_*)')


M.assume('descent (C06c): termination of the mutual recursion is not verified (partial correctness); every recursive '
         'call is made after a token has been consumed or at a higher precedence level')
M.assume('descent (C06c): operator names are not empty and every name of infix_ops_inc_precedence__seq is a key of the '
         'dict of its level (precondition grammar_ok, proved at every call between the functions of the descent; for '
         'the grammars of the program: Grammar.__init__ contract and the finite obligations of grammar-tables); '
         'at most 2 precedence levels, one name per level in infix_ops_inc_precedence__seq')


def _seq_step(acc, operand, level, name):
    return w_snoc(level, name, acc, operand)


# code of the operand sequence of an n-ary node of infix operator (level, name): a left fold of w_snoc from 0
seq_code = Measure('seq_code', 0, _seq_step, Int)

# ============================================================================== the token stream as a cursor


def _head(self):
    if self.pos >= w_n():
        return None
    return Token(TokenType.QUOTED if w_quoted(self.pos) else TokenType.PLAIN, w_string(self.pos), w_source(self.pos))


def _look_ahead_state(self):
    if self.pos < w_n():
        return LookAheadState.HAS_TOKEN
    return LookAheadState.SYNTAX_ERROR if w_bad_end() else LookAheadState.NULL


def _consume_py(self):
    head = self.head
    self.pos = self.pos + 1
    return head


def _consume(interp, self, args, kwargs):
    interp.st.oblige('%s : TokenStream.consume is called only when there is a head token'
                     % interp.current_function_name(),
                     interp.not_(interp.getattr(self, 'is_null')), {'kind': 'callee-pre'})
    return interp.call(_consume_py, [self], {})


class TokSeqI(Interface):
    """TokenStream as a cursor `pos` into the token sequence of the world"""
    target_class = TokenStream
    attrs = {'pos': Nat,
             'is_null': Derived(lambda self: self.pos >= w_n()),
             'head': Derived(_head),
             'look_ahead_state': Derived(_look_ahead_state),
             'remaining_part_of_current_line': Derived(lambda self: w_line_rest(self.pos))}
    methods = {'consume': Method(model=_consume)}


TOKEN_PARSER = Inst(TokenParser, _token_stream=Iface(TokSeqI), error_message_format_map=Const({}),
                    _first_line_number=Int)

# ============================================================================== the grammar, denoting the world


def _prim_parse_py(stream, name):
    p = stream.pos
    e = w_prim_end(name, p)
    if e < 0:
        stream.pos = w_prim_fail_pos(name, p)
        raise SIIAE('syntax error reported by the parser of a primitive')
    stream.pos = e
    return w_prim_val(name, p)


class PrimitiveI(Interface):
    methods = {'parse_arguments': Method(model=lambda interp, self, args, kwargs: interp.call(
        _prim_parse_py, [interp.getattr(args[0], '_token_stream'), self._pv_attrs['pname']], {}))}


def _table_getitem(member, elem_iface, key_attr):
    def getitem(interp, self, args, kwargs):
        if not interp.branch(interp.call(member, [self, args[0]], {})):
            raise PyRaise(KeyError('<key>'))
        return new_opaque(interp, elem_iface, self._pv_uid + '[]', preset=dict(self._pv_attrs, **{key_attr: args[0]}))

    return getitem


def _keys(interp, self, args, kwargs):
    return new_opaque(interp, KeysI, self._pv_uid + '.keys()', preset={'mapping': self})


class KeysI(Interface):
    methods = {'__contains__': Method(model=lambda interp, self, args, kwargs: interp.contains(
        self._pv_attrs['mapping'], args[0]))}


def _is_prim(self, name):
    return w_is_prim(name)


class PrimTableI(Interface):
    methods = {'__contains__': Method(model=lambda interp, self, args, kwargs: interp.call(w_is_prim, [args[0]], {})),
               '__getitem__': Method(model=_table_getitem(_is_prim, PrimitiveI, 'pname'))}


class PrefixMakerI(Interface):
    methods = {'__call__': Method(model=lambda interp, self, args, kwargs: interp.call(
        w_pre_val, [self._pv_attrs['pname'], args[0]], {}))}


class PrefixOpI(Interface):
    props = {'mk_expression': lambda interp, self: new_opaque(interp, PrefixMakerI, self._pv_uid + '.mk_expression',
                                                              preset={'pname': self._pv_attrs['pname']})}


def _is_prefix(self, name):
    return w_is_prefix(name)


class PrefixTableI(Interface):
    methods = {'__contains__': Method(model=lambda interp, self, args, kwargs: interp.call(w_is_prefix, [args[0]], {})),
               '__getitem__': Method(model=_table_getitem(_is_prefix, PrefixOpI, 'pname')),
               'keys': Method(model=_keys)}


class ReservedI(Interface):
    methods = {'__contains__': Method(model=lambda interp, self, args, kwargs:
               interp.call(w_is_reserved, [args[0]], {}))}


class RefMakerI(Interface):
    methods = {'__call__': Method(model=lambda interp, self, args, kwargs: interp.call(w_ref_val, [args[0]], {}))}


class InfixMakerI(Interface):
    methods = {'__call__': Method(model=lambda interp, self, args, kwargs: interp.call(
        seq_code, [args[0], interp.getattr(self._pv_attrs['op'], 'level'),
                   interp.getattr(self._pv_attrs['op'], 'name')], {}))}


class InfixOpI(Interface):
    """InfixOperator `name` of precedence level `level`"""
    attrs = {'level': Int, 'name': Str}
    props = {'mk_expression': lambda interp, self: new_opaque(interp, InfixMakerI, self._pv_uid + '.mk_expression',
                                                              preset={'op': self})}


def _is_infix_of(self, name):
    return w_is_infix(self.level, name)


def _level_getitem(interp, self, args, kwargs):
    if not interp.branch(interp.call(_is_infix_of, [self, args[0]], {})):
        raise PyRaise(KeyError('<key>'))
    return new_opaque(interp, InfixOpI, self._pv_uid + '[]',
                      preset={'level': interp.getattr(self, 'level'), 'name': args[0]})


class LevelI(Interface):
    """one dict of `Grammar.infix_ops_inc_precedence`: the operators of precedence level `level`"""
    attrs = {'level': Int}
    methods = {'__contains__': Method(model=lambda interp, self, args, kwargs:
               interp.call(_is_infix_of, [self, args[0]], {})),
               '__getitem__': Method(model=_level_getitem),
               'keys': Method(model=_keys)}


class NamedI(Interface):
    attrs = {'name': Str}


class ConceptI(Interface):
    attrs = {'syntax_element': Iface(NamedI)}


class ErrMsgI(Interface):
    """_ErrorMessageRenderer: rendering of messages is outside the property"""
    methods = {'missing_element': Method(returns=Str), 'unknown_primitive': Method(returns=Str),
               'plain_symbol_name_is_reserved_word': Method(returns=Str)}


def _mk_parser(num_levels, width, grammar_only=False):
    """a `_Parser` over the world: `num_levels` precedence levels; `width` names per level in the `__seq` table"""

    def mk_grammar(interp, name):
        g = object.__new__(expression_grammar.Grammar)
        g.concept = new_opaque(interp, ConceptI, name + '.grammar.concept')
        g.primitives = new_opaque(interp, PrimTableI, name + '.grammar.primitives')
        g.prefix_operators = new_opaque(interp, PrefixTableI, name + '.grammar.prefix_operators')
        g.custom_reserved_words = new_opaque(interp, ReservedI, name + '.grammar.custom_reserved_words')
        g.mk_reference = new_opaque(interp, RefMakerI, name + '.grammar.mk_reference')
        g.infix_ops_inc_precedence = tuple(
            new_opaque(interp, LevelI, name + '.grammar.infix_ops_inc_precedence[%d]' % k, preset={'level': k})
            for k in range(num_levels))
        g.infix_ops_inc_precedence__seq = tuple(
            tuple(NameAndValue(interp.call(w_seq_name, [k, j], {}), None) for j in range(width))
            for k in range(num_levels))
        return g

    if grammar_only:
        return Custom(lambda interp, name: mk_grammar(interp, name[:-len('.grammar')] if name.endswith('.grammar')
                                                      else name))

    def mk(interp, name):
        g = mk_grammar(interp, name)
        p = object.__new__(expression_parser._Parser)
        p.grammar = g
        p.parser = TOKEN_PARSER.make(interp, name + '.parser')
        p.prefix_operator_names = _keys(interp, g.prefix_operators, (), {})
        p._err_msg_renderer = new_opaque(interp, ErrMsgI, name + '._err_msg_renderer')
        return p

    return Custom(mk)


MAX_LEVELS = 2        # the grammars of the program have 0 (files-condition...), 1 (transformers: |) or 2 (matchers) levels
PARSER = Union(*[_mk_parser(n, 1) for n in range(MAX_LEVELS + 1)])
GRAMMAR = Union(*[_mk_parser(n, 1, grammar_only=True) for n in range(MAX_LEVELS + 1)])


def levels_of(n):
    return FixedList(*[Iface(LevelI) for _ in range(n)])


LEVELS = Union(*[levels_of(n) for n in range(MAX_LEVELS + 1)])
LEVELS_1 = Union(*[levels_of(n) for n in range(1, MAX_LEVELS + 1)])

# ============================================================================== the documented grammar: spec functions
# modes of `new_line_ignore`
ON_LINE, INSIDE, ANY_LINE = 0, 1, 2


def mode_of(new_line_ignore):
    return ON_LINE if new_line_ignore is None else new_line_ignore


def blank(s):
    """TokenParser.is_at_eol of the rest of the current line"""
    return (not s) or s.isspace()


def plain_at(p):
    """there is a token at p and it is not quoted"""
    return p < w_n() and not w_quoted(p)


def op_at(p, level, any_line):
    """at p stands an (unquoted) infix operator of the level -- on the current line, unless any line will do"""
    return 0 <= p and plain_at(p) and w_is_infix(level, w_string(p)) and (any_line or not blank(w_line_rest(p)))


def same_op_at(p, name, any_line):
    return 0 <= p and plain_at(p) and w_string(p) == name and (any_line or not blank(w_line_rest(p)))


def closes(N, s):
    """what `consume_mandatory_end_parentheses` accepts: ) or the name of an infix operator of the grammar"""
    return s == ')' or any([s == w_seq_name(k, 0) for k in range(N)])


def leaf_end(name, p):
    """a token `name` in primitive position, the cursor after it at p: where its syntax ends (-1: syntax error)"""
    if symref_illegal(name):
        return -1
    if symref_is_ref(name):
        return p
    if w_is_prim(name):
        return w_prim_end(name, p)
    if not is_symbol_name(name):
        return -1
    if w_is_reserved(name):
        return -1
    return p


def leaf_val(name, p):
    if symref_is_ref(name):
        return w_ref_val(symref_name(name))
    if w_is_prim(name):
        return w_prim_val(name, p)
    return w_ref_val(name)


# Cross references between the spec functions go through `rec_app` (application only): where a defining equation
# is needed it is unfolded explicitly (contract `setup`, loop invariants), ONE function at a time.

def _prim_end(N, p, on_line):
    return rec_app(prim_end, N, p, on_line)


def _prim_val(N, p, on_line):
    return rec_app(prim_val, N, p, on_line)


def _expr_end(N, p, mode, level):
    return rec_app(expr_end, N, p, mode, level)


def _expr_val(N, p, mode, level):
    return rec_app(expr_val, N, p, mode, level)


def _ops_end(N, q, inside, level):
    return rec_app(ops_end, N, q, inside, level)


def _ops_val(N, q, e, inside, level):
    return rec_app(ops_val, N, q, e, inside, level)


def _run_end(N, r, name, inside, level):
    return rec_app(run_end, N, r, name, inside, level)


def _run_val(N, r, name, inside, level, acc):
    return rec_app(run_val, N, r, name, inside, level, acc)


def operand_mode(inside):
    """the layout mode of the operand after an infix operator"""
    return INSIDE if inside else ANY_LINE


@recursive_int
def prim_end(N, p, on_line):
    """E_N (primitive with prefix operators / parentheses) starting at p: position after it; -1: syntax error"""
    if p < 0:
        return -1
    if on_line and blank(w_line_rest(p)):
        return -1
    if not plain_at(p):
        return -1
    if w_string(p) == '(':
        q = _expr_end(N, p + 1, INSIDE, 0)
        if q < 0:
            return -1
        if plain_at(q) and closes(N, w_string(q)):
            return q + 1
        return -1
    if w_is_prefix(w_string(p)):
        return _prim_end(N, p + 1, False)
    return leaf_end(w_string(p), p + 1)


@recursive_int
def prim_val(N, p, on_line):
    if p < 0 or not plain_at(p):
        return 0
    if w_string(p) == '(':
        return _expr_val(N, p + 1, INSIDE, 0)
    if w_is_prefix(w_string(p)):
        return w_pre_val(w_string(p), _prim_val(N, p + 1, False))
    return leaf_val(w_string(p), p + 1)


@recursive_int
def expr_end(N, p, mode, level):
    """E_level starting at p in the given layout mode"""
    if level >= N:
        return _prim_end(N, p, mode == ON_LINE)
    q = _expr_end(N, p, mode, level + 1)
    if q < 0:
        return -1
    return _ops_end(N, q, mode == INSIDE, level)


@recursive_int
def expr_val(N, p, mode, level):
    if level >= N:
        return _prim_val(N, p, mode == ON_LINE)
    return _ops_val(N, _expr_end(N, p, mode, level + 1), _expr_val(N, p, mode, level + 1), mode == INSIDE, level)


@recursive_int
def ops_end(N, q, inside, level):
    """( op_level E_level+1 )* after an operand that ended at q"""
    if not op_at(q, level, inside):
        return q
    r0 = _expr_end(N, q + 1, operand_mode(inside), level + 1)
    if r0 < 0:
        return -1
    r = _run_end(N, r0, w_string(q), inside, level)
    if r < 0:
        return -1
    return _ops_end(N, r, inside, level)


def first_two(level, name, e, e2):
    """code of the operand sequence [e, e2] of operator (level, name)"""
    return w_snoc(level, name, w_snoc(level, name, 0, e), e2)


@recursive_int
def ops_val(N, q, e, inside, level):
    if not op_at(q, level, inside):
        return e
    r0 = _expr_end(N, q + 1, operand_mode(inside), level + 1)
    return _ops_val(N, _run_end(N, r0, w_string(q), inside, level),
                    _run_val(N, r0, w_string(q), inside, level,
                             first_two(level, w_string(q), e, _expr_val(N, q + 1, operand_mode(inside), level + 1))),
                    inside, level)


@recursive_int
def run_end(N, r, name, inside, level):
    """( name E_level+1 )* -- the further operands of a run of the same operator -- after an operand that ended at r"""
    if not same_op_at(r, name, inside):
        return r
    q = _expr_end(N, r + 1, operand_mode(inside), level + 1)
    if q < 0:
        return -1
    return _run_end(N, q, name, inside, level)


@recursive_int
def run_val(N, r, name, inside, level, acc):
    if not same_op_at(r, name, inside):
        return acc
    return _run_val(N, _expr_end(N, r + 1, operand_mode(inside), level + 1), name, inside, level,
                    w_snoc(level, name, acc, _expr_val(N, r + 1, operand_mode(inside), level + 1)))


# ============================================================================== contracts

def num_levels(self):
    return len(self.grammar.infix_ops_inc_precedence)


def pos_of(self):
    return self.parser._token_stream.pos


def names_not_empty(N):
    """operator names are not empty (the code tests a matched name for truth); for the grammars of the program:
    finite obligations of 'grammar-tables' (C06_expression.py)"""
    return (not w_is_prefix('')) and all([not w_is_infix(k, '') for k in range(N)])


def grammar_ok(N):
    return names_not_empty(N) and seq_names_are_keys(N)


def seq_names_are_keys(N):
    """every name of `infix_ops_inc_precedence__seq` is a key of the dict of its level -- what Grammar.__init__ makes
    of its argument (proved: 'one dict per precedence level ... mapping exactly the names of its level', part (a))"""
    return all([w_is_infix(k, w_seq_name(k, 0)) for k in range(N)])


def no_operator_follows(N, p, inside, from_level):
    """inside parentheses: the token at p is not an (unquoted) infix operator of the levels from_level .. N-1"""
    return (not inside) or all([not op_at(p, j, True) for j in range(from_level, N)])


def tail_levels(levels, N):
    """`levels` are the precedence levels N-len(levels) .. N-1 of the grammar"""
    return len(levels) <= N and all([levels[j].level == N - len(levels) + j for j in range(len(levels))])


def _defs(*values):
    """(the arguments are calls of spec functions: evaluating them brings their defining equations into the proof)"""
    return True


def bridge(N, p, mode, level):
    """E_N is the primitive: the defining equations of expr_end / expr_val at the level above the operators
    (no case distinction there)"""
    return _defs(expr_end(N, p, mode, level), expr_val(N, p, mode, level)) if level >= N else True


def _unfold(*calls):
    """contract `setup`: the defining equations of the spec functions at the arguments of this call"""

    def setup(interp, args, ghosts):
        for fn, mk_args in calls:
            a = interp.call(mk_args, [args[n] for n in mk_args.__code__.co_varnames[:mk_args.__code__.co_argcount]], {})
            if a is not None:
                interp.call(fn, list(a), {})
        return {}

    return setup


_POS = {'self.parser._token_stream.pos': Nat}

M.contract(P_PARSER + ':_Parser.parse_mandatory_primitive',
           params=dict(self=PARSER, must_be_on_current_line=Bool), returns=Int,
           requires=lambda self: grammar_ok(num_levels(self)),
           setup=_unfold(
               (prim_end, lambda self, must_be_on_current_line: (num_levels(self), pos_of(self), must_be_on_current_line)),
               # a grammar without infix operators: the expression inside parentheses is a primitive
               (bridge, lambda self: (num_levels(self), pos_of(self) + 1, INSIDE, 0))),
           old=pos_of, modifies=_POS,
           raises={SIIAE: {'ensures': lambda self, must_be_on_current_line, old:
                           _prim_end(num_levels(self), old, must_be_on_current_line) < 0 and pos_of(self) >= old}},
           ensures={
               '(defining equation of the value)': (lambda self, must_be_on_current_line, old:
                                                    _defs(prim_val(num_levels(self), old, must_be_on_current_line)),
                                                    'check-only'),
               'reads exactly the primitive of the documented grammar: ( E ), prefix operator + primitive, or leaf':
                   lambda self, must_be_on_current_line, old, result:
                   _prim_end(num_levels(self), old, must_be_on_current_line) == pos_of(self)
                   and _prim_val(num_levels(self), old, must_be_on_current_line) == result,
               'consumes at least one token': lambda self, old: pos_of(self) > old,
               # (the operator alternative of consume_mandatory_end_parentheses is never taken: what the run-time
               # probe of the bounded stand-in monitors -- finding C06-1 before fix 35f7247 -- is proved here)
               'only a ) closes a parenthesis': (lambda self, old:
                                                 implies(plain_at(old) and w_string(old) == '(',
                                                         w_string(pos_of(self) - 1) == ')'), 'check-only'),
           }, raises_only=())

_EXPR_SETUP = _unfold(
    (expr_end, lambda self, new_line_ignore, infix_ops_levels:
     (num_levels(self), pos_of(self), mode_of(new_line_ignore), num_levels(self) - len(infix_ops_levels))),
    (bridge, lambda self, new_line_ignore, infix_ops_levels:
     (num_levels(self), pos_of(self), mode_of(new_line_ignore), num_levels(self) - len(infix_ops_levels) + 1)))

MODE = Opt(OneOf(INSIDE, ANY_LINE))


def _expr_contract(qname, levels_shape, **kw):
    M.contract(qname,
               params=dict(self=PARSER, new_line_ignore=MODE, infix_ops_levels=levels_shape), returns=Int,
               requires=lambda self, infix_ops_levels:
               grammar_ok(num_levels(self)) and tail_levels(infix_ops_levels, num_levels(self)),
               setup=_EXPR_SETUP, old=pos_of, modifies=_POS,
               raises={SIIAE: {'ensures': lambda self, new_line_ignore, infix_ops_levels, old:
                               _expr_end(num_levels(self), old, mode_of(new_line_ignore),
                                         num_levels(self) - len(infix_ops_levels)) < 0 and pos_of(self) >= old}},
               ensures={
                   '(defining equations)': (lambda self, new_line_ignore, infix_ops_levels, old, result:
                                            _defs(expr_val(num_levels(self), old, mode_of(new_line_ignore),
                                                           num_levels(self) - len(infix_ops_levels)),
                                                  ops_end(num_levels(self), pos_of(self), new_line_ignore is INSIDE,
                                                          num_levels(self) - len(infix_ops_levels)),
                                                  ops_val(num_levels(self), pos_of(self), result,
                                                          new_line_ignore is INSIDE,
                                                          num_levels(self) - len(infix_ops_levels)))
                                            if len(infix_ops_levels) > 0 else
                                            _defs(expr_val(num_levels(self), old, mode_of(new_line_ignore),
                                                           num_levels(self) - len(infix_ops_levels))),
                                            'check-only'),
                   'reads exactly the expression of the documented grammar at this precedence level':
                       lambda self, new_line_ignore, infix_ops_levels, old, result:
                       _expr_end(num_levels(self), old, mode_of(new_line_ignore),
                                 num_levels(self) - len(infix_ops_levels)) == pos_of(self)
                       and _expr_val(num_levels(self), old, mode_of(new_line_ignore),
                                     num_levels(self) - len(infix_ops_levels)) == result,
                   'consumes at least one token': lambda self, old: pos_of(self) > old,
                   'inside parentheses no infix operator of this or a higher precedence level follows (on any line)':
                       lambda self, new_line_ignore, infix_ops_levels:
                       no_operator_follows(num_levels(self), pos_of(self), new_line_ignore is INSIDE,
                                           num_levels(self) - len(infix_ops_levels)),
               }, raises_only=(), **kw)


_expr_contract(P_PARSER + ':_Parser.parse_w_maybe_infix_ops', LEVELS, inline=True)
_expr_contract(P_PARSER + ':_Parser.parse_w_infix_ops', LEVELS_1)

M.contract(P_PARSER + ':_Parser.parse', inline=True,
           params=dict(self=PARSER, new_line_ignore=MODE), returns=Int,
           requires=lambda self: grammar_ok(num_levels(self)),
           setup=_unfold((bridge, lambda self, new_line_ignore:
                          (num_levels(self), pos_of(self), mode_of(new_line_ignore), 0))),
           old=pos_of, modifies=_POS,
           raises={SIIAE: {'ensures': lambda self, new_line_ignore, old:
                           _expr_end(num_levels(self), old, mode_of(new_line_ignore), 0) < 0 and pos_of(self) >= old}},
           ensures={
               'reads exactly the full expression of the documented grammar':
                   lambda self, new_line_ignore, old, result:
                   _expr_end(num_levels(self), old, mode_of(new_line_ignore), 0) == pos_of(self)
                   and _expr_val(num_levels(self), old, mode_of(new_line_ignore), 0) == result,
               'consumes at least one token': lambda self, old: pos_of(self) > old,
               'inside parentheses no infix operator follows (on any line)': lambda self, new_line_ignore:
               no_operator_follows(num_levels(self), pos_of(self), new_line_ignore is INSIDE, 0),
           }, raises_only=())


def _h(self, infix_operator_name):
    """position of the token that decides whether the loop of parse_w_infix_ops goes on"""
    return pos_of(self) if infix_operator_name is None else pos_of(self) - 1


def _level_of(self, infix_ops_levels):
    return num_levels(self) - len(infix_ops_levels)


M.loop(P_PARSER + ':_Parser.parse_w_infix_ops', 0,
       entry=lambda self, infix_operator_name, expression: (_h(self, infix_operator_name), expression),
       invariant=lambda self, new_line_ignore, infix_ops_levels, expression, infix_operator_name, _entry:
       _entry[0] <= _h(self, infix_operator_name)
       and no_operator_follows(num_levels(self), _h(self, infix_operator_name), new_line_ignore is INSIDE,
                               _level_of(self, infix_ops_levels) + 1)
       and (infix_operator_name is None or infix_operator_name == w_string(_h(self, infix_operator_name)))
       and iff(infix_operator_name is not None,
               op_at(_h(self, infix_operator_name), _level_of(self, infix_ops_levels), new_line_ignore is INSIDE))
       and _ops_end(num_levels(self), _h(self, infix_operator_name), new_line_ignore is INSIDE,
                    _level_of(self, infix_ops_levels))
       == _ops_end(num_levels(self), _entry[0], new_line_ignore is INSIDE, _level_of(self, infix_ops_levels))
       and _ops_val(num_levels(self), _h(self, infix_operator_name), expression, new_line_ignore is INSIDE,
                    _level_of(self, infix_ops_levels))
       == _ops_val(num_levels(self), _entry[0], _entry[1], new_line_ignore is INSIDE,
                   _level_of(self, infix_ops_levels)),
       # the defining equations at the token that decides: at the start of an iteration here, after the loop in the
       # contract's '(defining equations)' clause -- not where the invariant is re-established (they are not needed
       # there and every unfolding is a case distinction)
       pre=lambda self, new_line_ignore, infix_ops_levels, expression, infix_operator_name:
       _defs(ops_end(num_levels(self), _h(self, infix_operator_name), new_line_ignore is INSIDE,
                     _level_of(self, infix_ops_levels)),
             ops_val(num_levels(self), _h(self, infix_operator_name), expression, new_line_ignore is INSIDE,
                     _level_of(self, infix_ops_levels))),
       modifies={'expression': Int, 'infix_operator_name': Opt(Str), 'self.parser._token_stream.pos': Nat})


def _run_start(self, infix_ops_levels, is_inside_parens, old):
    """where the first (mandatory) operand after the operator ends"""
    return _expr_end(num_levels(self), old, operand_mode(is_inside_parens), _level_of(self, infix_ops_levels))


M.contract(P_PARSER + ':_Parser.infix_op_sequence_for_single_op',
           params=dict(self=PARSER, operator_name=Str, operator=Iface(InfixOpI), first_operand=Int,
                       infix_ops_levels=LEVELS, is_inside_parens=Bool), returns=Int,
           # the operator is the operator `operator_name` of the level just below the given ones
           requires=lambda self, operator_name, operator, infix_ops_levels:
           grammar_ok(num_levels(self)) and tail_levels(infix_ops_levels, num_levels(self))
           and operator.level == _level_of(self, infix_ops_levels) - 1 and operator.level >= 0
           and operator.name == operator_name and w_is_infix(operator.level, operator_name),
           setup=_unfold((bridge, lambda self, infix_ops_levels, is_inside_parens:
                          (num_levels(self), pos_of(self), operand_mode(is_inside_parens),
                           num_levels(self) - len(infix_ops_levels)))),
           old=pos_of, modifies=_POS,
           raises={SIIAE: {'ensures': lambda self, operator_name, operator, infix_ops_levels, is_inside_parens, old:
                           (_run_start(self, infix_ops_levels, is_inside_parens, old) < 0
                            or _run_end(num_levels(self), _run_start(self, infix_ops_levels, is_inside_parens, old),
                                        operator_name, is_inside_parens, operator.level) < 0)
                           and pos_of(self) >= old}},
           ensures={
               '(defining equations)': (lambda self, operator_name, operator, is_inside_parens, result:
                                        _defs(run_end(num_levels(self), pos_of(self), operator_name, is_inside_parens,
                                                      operator.level),
                                              run_val(num_levels(self), pos_of(self), operator_name, is_inside_parens,
                                                      operator.level, result)), 'check-only'),
               'a run of the same operator is one node: the operands in source order, up to the first token that '
               'is not this operator (on the same line, unless inside parentheses)':
                   lambda self, operator_name, operator, first_operand, infix_ops_levels, is_inside_parens, old, result:
                   _run_start(self, infix_ops_levels, is_inside_parens, old) >= 0
                   and pos_of(self) == _run_end(num_levels(self),
                                                _run_start(self, infix_ops_levels, is_inside_parens, old),
                                                operator_name, is_inside_parens, operator.level)
                   and result == _run_val(num_levels(self), _run_start(self, infix_ops_levels, is_inside_parens, old),
                                          operator_name, is_inside_parens, operator.level,
                                          first_two(operator.level, operator_name, first_operand,
                                                    _expr_val(num_levels(self), old, operand_mode(is_inside_parens),
                                                              _level_of(self, infix_ops_levels)))),
               'consumes at least one token': lambda self, old: pos_of(self) > old,
               'inside parentheses no infix operator of a higher precedence level follows (on any line)':
                   lambda self, infix_ops_levels, is_inside_parens:
                   no_operator_follows(num_levels(self), pos_of(self), is_inside_parens,
                                       _level_of(self, infix_ops_levels)),
           }, raises_only=())

M.loop(P_PARSER + ':_Parser.infix_op_sequence_for_single_op', 0,
       entry=lambda self, operands, operator: (pos_of(self), seq_code(operands, operator.level, operator.name)),
       invariant=lambda self, operator_name, operator, operands, infix_ops_levels, is_inside_parens, _entry:
       _entry[0] <= pos_of(self)
       and no_operator_follows(num_levels(self), pos_of(self), is_inside_parens, _level_of(self, infix_ops_levels))
       and bridge(num_levels(self), pos_of(self) + 1, operand_mode(is_inside_parens), _level_of(self, infix_ops_levels))
       and _run_end(num_levels(self), pos_of(self), operator_name, is_inside_parens, operator.level)
       == _run_end(num_levels(self), _entry[0], operator_name, is_inside_parens, operator.level)
       and _run_val(num_levels(self), pos_of(self), operator_name, is_inside_parens, operator.level,
                    seq_code(operands, operator.level, operator.name))
       == _run_val(num_levels(self), _entry[0], operator_name, is_inside_parens, operator.level, _entry[1]),
       pre=lambda self, operator_name, operator, operands, is_inside_parens:
       _defs(run_end(num_levels(self), pos_of(self) - 1, operator_name, is_inside_parens, operator.level),
             run_val(num_levels(self), pos_of(self) - 1, operator_name, is_inside_parens, operator.level,
                     seq_code(operands, operator.level, operator.name))),
       modifies={'operands': MListOf(Int), 'self.parser._token_stream.pos': Nat})


# ============================================================================== the two entries: parsers(b).full / .simple
# `parsers(grammar, b)` wraps these two classes (`parser_for_must_be_on_current_line`: an additional "the current line
# is not empty" check in front when b).  `_Parser.__init__` is interpreted from its real source here.

def _n_levels(self):
    return len(self._grammar.infix_ops_inc_precedence)


_STREAM_POS = lambda parser: parser._token_stream.pos

M.contract(P_PARSER + ':_FullParserOnAnyLineParser.parse_from_token_parser',
           params=dict(self=Inst(expression_parser._FullParserOnAnyLineParser, _grammar=GRAMMAR), parser=TOKEN_PARSER),
           returns=Int, requires=lambda self: grammar_ok(_n_levels(self)),
           setup=_unfold((bridge, lambda self, parser: (_n_levels(self), parser._token_stream.pos, ANY_LINE, 0))),
           old=_STREAM_POS, modifies={'parser._token_stream.pos': Nat},
           raises={SIIAE: {'ensures': lambda self, parser, old:
                           _expr_end(_n_levels(self), old, ANY_LINE, 0) < 0 and parser._token_stream.pos >= old}},
           ensures={
               'the full parser reads exactly the full expression of the documented grammar: operators of the lowest '
               'precedence outermost, an operator on the line of the operand before it; nothing more is consumed':
                   lambda self, parser, old, result:
                   _expr_end(_n_levels(self), old, ANY_LINE, 0) == parser._token_stream.pos
                   and _expr_val(_n_levels(self), old, ANY_LINE, 0) == result,
           }, raises_only=())

M.contract(P_PARSER + ':_SimpleParserOnAnyLineParser.parse_from_token_parser',
           params=dict(self=Inst(expression_parser._SimpleParserOnAnyLineParser, _grammar=GRAMMAR), parser=TOKEN_PARSER),
           returns=Int, requires=lambda self: grammar_ok(_n_levels(self)),
           old=_STREAM_POS, modifies={'parser._token_stream.pos': Nat},
           raises={SIIAE: {'ensures': lambda self, parser, old:
                           _prim_end(_n_levels(self), old, False) < 0 and parser._token_stream.pos >= old}},
           ensures={
               'the simple parser reads exactly one primitive': lambda self, parser, old, result:
               _prim_end(_n_levels(self), old, False) == parser._token_stream.pos
               and _prim_val(_n_levels(self), old, False) == result,
               # (by the defining equation of prim_end: where a leaf ends does not depend on the token after it)
               'a leaf is read up to the end of its own syntax: a following infix operator is not consumed':
                   (lambda self, parser, old:
                    _defs(prim_end(_n_levels(self), old, False))
                    and implies(plain_at(old) and w_string(old) != '(' and not w_is_prefix(w_string(old)),
                                parser._token_stream.pos == leaf_end(w_string(old), old + 1)), 'check-only'),
           }, raises_only=())
