"""C11 ("env -of act ... is what the act process sees; the timeout in force is the one every process gets") rests on the
actors handing the process executor the settings made by `atc_proc_exe_settings.for_atc` (timeout of the environment,
environ of the act input): proved for C19 / C10 in contracts/C19_timeouts.py for every actor (program, file
interpreter, source interpreter, actor-from-parts).  Those contracts carry C11 too.  (Seeded change C11-s7: the
file-interpreter actor re-used the settings of the application environment -- right timeout, NON-act env set.)"""
from pyvc.api import Module

M = Module('C11')


def _share():
    from contracts.common import share_contracts
    names = share_contracts('C11', 'contracts.C19_timeouts', lambda q: q.startswith('exactly_lib.impls.actors.'))
    assert len(names) >= 5, names


M.after_load = _share
