"""C14 ("a text has one value however it is consumed") also rests on the CONSUMERS reading the whole text through
whichever of as_str / as_lines / as_file they choose: the string matchers of C05 (num-lines, is-empty, matches,
every/any line, equals) are under contract there, stated over the one ghost text of the interface `I_SSC`; a consumer
that counts as_str.count('\\n') for in-memory texts and lines otherwise (seeded change C14-s7) gives the same text two
values.  Those contracts carry C14 too and are re-proved by its check."""
from pyvc.api import Module

M = Module('C14')


def _share():
    from contracts.common import share_contracts
    share_contracts('C14', 'contracts.C05_text', lambda q: '.string_matcher.impl.' in q)


M.after_load = _share
