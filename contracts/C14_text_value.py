"""C14 -- a text has one value however it is consumed (DESIGN.md 3/C14).

The interface contract of a text, I_SSC (`SSCI` below): a StringSourceContents `c` has ONE ghost text
`txt` and
  (1) c.as_str == txt
  (2) c.as_lines yields split_nl(txt)  -- the division after '\\n' only
  (3) the file c.as_file decodes (text mode, as every reader in the program opens it) to txt
  (4) c.write_to(out) appends txt to out
  (5) repeated access gives the same (txt is a fixed attribute of the object).
Every concrete class is proved to satisfy it for its own definition of txt (`txt_of`), the caching /
freezing wrappers are proved to preserve txt, for every memory-buffer size >= 1 (a symbolic integer).
The file system, text files, StringIO, filecmp and str.splitlines are ghost state with assumed
contracts (pyvc/textio.py)."""
import os

try:
    import z3
except ImportError:      # replays run under the repository's interpreter, without z3
    z3 = None

from pyvc import textio, texts
from pyvc.api import (Module, Interface, Method, Iface, Inst, Int, Nat, Pos, Bool, Str, Opt, OneOf, Const, Union,
                      ListOf, IterOf, CtxOf, InPlace, InPlaceBy, FixedList, Any_, Custom, new_opaque, assume_pred)
from pyvc.textio import PathI, TextOutI, TextFileI, StringIOI
from pyvc.values import SStr, SBool, SList, Opaque, to_z3, wrap
from pyvc.models import SIter
from contracts.common import (implies, iff, forall_range, exists_range, prefix_join, join_of, peek, is_opaque)
from contracts import text_spec, replays_c14
from contracts.text_spec import NL, is_line, is_split_nl, split_nl, lines_of

from exactly_lib.type_val_prims.string_source.contents import StringSourceContents
from exactly_lib.type_val_prims.string_source.string_source import StringSource
from exactly_lib.type_val_prims.string_source.impls import concat as concat_mod
from exactly_lib.type_val_prims.string_source.impls import transformed_string_sources as tss_prims
from exactly_lib.impls.types.string_source import cached_frozen
from exactly_lib.impls.types.string_source.contents import (contents_of_str, contents_of_existing_path,
                                                            contents_via_write_to, contents_with_cached_path, frozen)
from exactly_lib.impls.types.string_source.contents.contents_via_write_to import Writer
from exactly_lib.util.file_utils import spooled_file
from exactly_lib.impls.types.string_transformer.impl.filter import string_sources as filter_sources
from exactly_lib.util.file_utils.dir_file_space import DirFileSpace

M = Module('C14')
text_spec.register_models(M)

P_CONTENTS = 'exactly_lib.type_val_prims.string_source.contents'
P_COS = 'exactly_lib.impls.types.string_source.contents.contents_of_str'
P_COEP = 'exactly_lib.impls.types.string_source.contents.contents_of_existing_path'
P_CVWT = 'exactly_lib.impls.types.string_source.contents.contents_via_write_to'
P_CWCP = 'exactly_lib.impls.types.string_source.contents.contents_with_cached_path'
P_FROZEN = 'exactly_lib.impls.types.string_source.contents.frozen'
P_CACHED = 'exactly_lib.impls.types.string_source.cached_frozen'
P_SPOOLED = 'exactly_lib.util.file_utils.spooled_file'
P_CONCAT = 'exactly_lib.type_val_prims.string_source.impls.concat'
P_TSS = 'exactly_lib.type_val_prims.string_source.impls.transformed_string_sources'


# ============================================================================== observations (spec functions)
# Native definitions are what a replay executes; the proof-level definitions read the ghost file system.

def file_text(path):
    """the text a reader gets: opened in text mode with the default universal-newline translation"""
    with open(str(path)) as f:
        return f.read()


def file_stored(path):
    """the characters the file holds, undecoded w.r.t. line ends"""
    with open(str(path), newline='') as f:
        return f.read()


def written(out):
    """what has been written to an output so far"""
    return out.getvalue()


def decoded(s):
    """universal-newline translation: what reading stored text s in text mode gives"""
    return s.replace('\r\n', '\n').replace('\r', '\n')


def with_lines(cm):
    """the lines a `with cm as lines` block sees (cm: the value of an as_lines property)"""
    with cm as lines:
        return list(lines)


def ctx_lines(yielded):
    """the lines a `with x.as_lines as lines` block sees; `yielded`: what the generator function of the
    @contextmanager property yields (one item: the iterator)"""
    return list(yielded[0])


def _res(interp, v):
    from pyvc.values import SOpt, SChoice
    return interp.resolve(v) if isinstance(v, (SOpt, SChoice)) else v


M.model(file_text, lambda interp, args, kwargs:
        wrap(textio.univ(interp, textio.stored_of(interp, _res(interp, args[0])))))
M.model(decoded, lambda interp, args, kwargs: wrap(textio.univ(interp, _res(interp, args[0]))))
M.model(file_stored, lambda interp, args, kwargs: wrap(textio.stored_of(interp, _res(interp, args[0]))))
M.model(written, lambda interp, args, kwargs: wrap(textio.written_of(interp, _res(interp, args[0]))))


# ============================================================================== I_SSC: the interface of a text

class DirFileSpaceI(Interface):
    """the temporary-file space: new_path gives a path that is not in use (environment assumption)"""
    target_class = DirFileSpace
    methods = {'new_path': Method(model=lambda interp, self, args, kwargs: textio.new_unused_path(interp, 'new_path'))}


class _AsLines:
    """the context manager `c.as_lines` of an abstract text: yields an iterator over split_nl(txt)"""

    def __init__(self, it):
        self.it = it

    def __enter__(self):
        return self.it

    def __exit__(self, *exc):
        return None


def _ssc_as_lines(interp, self):
    txt = interp.reg.opaque_getattr(interp, self, 'txt')
    return _AsLines(SIter(texts.lines_of_text(interp, txt), 0))


def _ssc_as_file(interp, self):
    p = self._pv_attrs.get('__as_file__')
    if p is None:
        p = new_opaque(interp, PathI, self._pv_uid + '.as_file')
        self._pv_attrs['__as_file__'] = p
        txt = interp.reg.opaque_getattr(interp, self, 'txt')
        interp.st.assume(textio.univ(interp, textio.stored_of(interp, p)) == to_z3(txt))
    return p


def append_text(interp, out, s):
    """`s` is written to `out`, in one or several write / writelines calls."""
    if isinstance(out, Opaque):
        return textio.append_to(interp, out, s)
    if isinstance(out, spooled_file.SpooledTextFile):
        return _spooled_receive(interp, out, s)
    from pyvc.path import Unsupported
    raise Unsupported('text written to %r' % (out,))


def _spooled_receive(interp, out, s):
    """A writer writes text s to a real SpooledTextFile in an unknown number of write / writelines calls.
    By induction over the calls, each of which is proved (contracts of SpooledTextFile.write and
    .writelines below) to keep `spooled_ok` and to extend `spooled_written` by what it is given:
    afterwards the file is in some state with spooled_ok, holding old + s; it is still a memory buffer
    exactly if it was one and everything fits."""
    old_w = interp.call(spooled_written, [out])
    was_mem = out._path is None
    _havoc_spooled(interp, out, 'received')
    assume_pred(interp, _spooled_received, out, old_w, s, was_mem)


def _spooled_received(f, old_w, s, was_mem):
    return spooled_ok(f) and spooled_written(f) == old_w + s \
        and iff(f._path is None, was_mem and len(old_w + s) <= f._max_size)


def _ssc_write_to(interp, self, args, kwargs):
    append_text(interp, args[0], interp.reg.opaque_getattr(interp, self, 'txt'))


class SSCI(Interface):
    """I_SSC.  Environment of every consumer of a text (C05); every implementing class is proved to
    satisfy it below (clauses as_str / as_lines / as_file / write_to of each class)."""
    target_class = StringSourceContents
    attrs = {'txt': Str, 'tmp_file_space': Iface(DirFileSpaceI)}
    props = {
        'as_str': lambda interp, self: interp.reg.opaque_getattr(interp, self, 'txt'),
        'as_lines': _ssc_as_lines,
        'as_file': _ssc_as_file,
        # "the return value is allowed to vary over time": a fresh boolean at every read
        'may_depend_on_external_resources': lambda interp, self: Bool.make(interp, self._pv_uid + '.ext_deps'),
    }
    methods = {'write_to': Method(model=_ssc_write_to)}


SSC = Iface(SSCI)


def _ss_contents(interp, self, args, kwargs):
    """contents() of an abstract source: some contents object whose text is the text of the source"""
    c = new_opaque(interp, SSCI, self._pv_uid + '.contents()')
    c._pv_attrs['txt'] = interp.reg.opaque_getattr(interp, self, 'txt')
    c._pv_attrs['tmp_file_space'] = interp.reg.opaque_getattr(interp, self, 'tmp_file_space')
    return c


class SSI(Interface):
    """A StringSource with a constant text: contents() always has the text `txt`, before and after
    freeze() (proved of StringSourceWithCachedFrozen and TransformedStringSourceFromLines below;
    sources whose text may vary over time -- a program run twice -- are outside the property)."""
    target_class = StringSource
    attrs = {'txt': Str, 'tmp_file_space': Iface(DirFileSpaceI)}
    methods = {
        'contents': Method(model=_ss_contents),
        'freeze': Method(event='freeze'),
        'structure': Method(returns=Any_),
        'new_structure_builder': Method(returns=Any_),
    }


SS = Iface(SSI)


class WriterI(Interface):
    """contents_via_write_to.Writer with a constant text: write(space, out) appends `txt` to out"""
    target_class = Writer
    attrs = {'txt': Str}
    methods = {'write': Method(model=lambda interp, self, args, kwargs:
                               append_text(interp, args[1], interp.reg.opaque_getattr(interp, self, 'txt')))}


# ============================================================================== txt_of: the text of each class

def txt_of(c):
    if is_opaque(c):
        return c.txt
    if isinstance(c, contents_of_str.ContentsOfStr):
        return c._contents
    if isinstance(c, contents_of_existing_path.StringSourceContentsOfExistingPath):
        return file_text(c._existing_regular_file_path)
    if isinstance(c, frozen._StringSourceContentsOfConstStrAndExistingPath):
        return c._contents_as_str
    if isinstance(c, contents_via_write_to.ContentsViaWriteTo):
        # every reader of this class goes through the file the writer's output is stored in
        return decoded(c._writer.txt)
    if isinstance(c, cached_frozen._FreezingStringSourceContents):
        return txt_of(c._unfrozen)
    if isinstance(c, tss_prims._TransformedStringSourceContentsFromLines):
        return c._transformation.F(txt_of(c._transformed))
    if isinstance(c, concat_mod._ConcatStringSourceContents):
        return join_of(part_txts(c._parts))
    if isinstance(c, filter_sources.TransformedContentsViaAsLinesBase):
        return c._transform_lines.F(c._source.txt)
    raise ValueError('txt_of: unexpected class %r' % (type(c),))


def part_txts(parts):
    """the texts of a sequence of sources"""
    return [p.contents().as_str for p in parts]


def _m_part_txts(interp, args, kwargs):
    """proof level: ONE list per sequence of sources (so that its prefix-join measure is one function)"""
    parts = _res(interp, args[0])
    ys = parts.aux.get('part_txts')
    if ys is None:
        def elem(interp2, idx):
            from pyvc import models as _m
            return interp2.reg.opaque_getattr(interp2, _m.slist_elem(interp2, parts, idx), 'txt')

        ys = SList(parts.length, elem, parts.uid + '.txts')
        parts.aux['part_txts'] = ys
    return ys


M.model(part_txts, _m_part_txts)


def raw_txt_of(c):
    """the text of a class whose file is made by writing: as it is written (before any decoding)"""
    if isinstance(c, contents_via_write_to.ContentsViaWriteTo):
        return c._writer.txt
    return txt_of(c)


def _rereadable(inv=None, at=None):
    """Re-readability, the part of I_SSC about MORE than one use: a read (as_str / as_lines / as_file / write_to)
    leaves the object in a state that satisfies the class invariant again and in which its text is the text it
    had before.  Every read is proved from the class invariant alone, so by induction over the uses every later
    read, of any kind and in any order, sees the same txt (the interface SSCI assumes exactly this of an abstract
    text: `txt` is one constant).  `old` (or old[at]) of the contract is txt_of(self) in the pre-state.
    The iterator handed out by as_lines is consumed by the clause about the lines BEFORE these clauses are
    evaluated (clauses are evaluated in order): a cache that shares state with it is seen in its consumed state."""
    if at is None:
        d = {'re-readable: the text is what it was before': lambda self, old: txt_of(self) == old}
    else:
        d = {'re-readable: the text is what it was before': lambda self, old: txt_of(self) == old[at]}
    if inv is not None:
        d['re-readable: the class invariant holds afterwards'] = lambda self: inv(self)
    return d


def cached_path_ok(c):
    """class invariant of StringSourceContentsWithCachedPath: a cached path holds the text"""
    return c._as_file_path is None or file_text(c._as_file_path) == txt_of(c)


# ============================================================================== ContentsOfStr

CONTENTS_OF_STR = Inst(contents_of_str.ContentsOfStr, _invariant=cached_path_ok,
                       _contents=Str, _file_name=Opt(Str), _tmp_file_space=Iface(DirFileSpaceI),
                       _as_file_path=Opt(Iface(PathI)))

M.contract(P_COS + ':ContentsOfStr.as_str', params=dict(self=CONTENTS_OF_STR), inline=True,
           old=lambda self: txt_of(self),
           ensures={'as_str == txt': lambda self, result: result == txt_of(self), **_rereadable(cached_path_ok)},
           raises_only=())

M.contract(P_COS + ':ContentsOfStr.as_lines', params=dict(self=CONTENTS_OF_STR), inline=True,
           old=lambda self: txt_of(self),
           ensures={'lines == split_nl(txt)': lambda self, yielded: is_split_nl(ctx_lines(yielded), txt_of(self)),
                    **_rereadable(cached_path_ok)},
           replay=lambda model, rf: replays_c14.source('lines_of_contents_of_str'),
           raises_only=())

M.contract(P_COS + ':ContentsOfStr.write_to', params=dict(self=CONTENTS_OF_STR, output=Iface(TextOutI)), inline=True,
           old=lambda self, output: (written(output), txt_of(self)),
           ensures={'appends txt': lambda self, output, old: written(output) == old[0] + txt_of(self),
                    **_rereadable(cached_path_ok, at=1)},
           raises_only=())


# ============================================================================== StringSourceContentsOfExistingPath
# txt := the decoded file.  Every access path reads the file in text mode.

CONTENTS_OF_PATH = Inst(contents_of_existing_path.StringSourceContentsOfExistingPath,
                        _existing_regular_file_path=Iface(PathI), _tmp_file_space=Iface(DirFileSpaceI))

M.contract(P_COEP + ':StringSourceContentsOfExistingPath.as_str', params=dict(self=CONTENTS_OF_PATH), inline=True,
           old=lambda self: txt_of(self),
           ensures={'as_str == txt': lambda self, result: result == txt_of(self), **_rereadable()}, raises_only=())

M.contract(P_COEP + ':StringSourceContentsOfExistingPath.as_lines', params=dict(self=CONTENTS_OF_PATH), inline=True,
           old=lambda self: txt_of(self),
           ensures={'lines == split_nl(txt)': lambda self, yielded: is_split_nl(ctx_lines(yielded), txt_of(self)),
                    **_rereadable()},
           raises_only=())

M.contract(P_COEP + ':StringSourceContentsOfExistingPath.as_file', params=dict(self=CONTENTS_OF_PATH), inline=True,
           old=lambda self: txt_of(self),
           ensures={'file decodes to txt': lambda self, result: file_text(result) == txt_of(self), **_rereadable()},
           raises_only=())

M.contract(P_COEP + ':StringSourceContentsOfExistingPath.write_to',
           params=dict(self=CONTENTS_OF_PATH, output=Iface(TextOutI)), inline=True,
           old=lambda self, output: (written(output), txt_of(self)),
           ensures={'appends txt': lambda self, output, old: written(output) == old[0] + txt_of(self),
                    **_rereadable(at=1)},
           raises_only=())


# ============================================================================== _StringSourceContentsOfConstStrAndExistingPath
# (the frozen form of a text that was spilled to disk but fits in the buffer): txt := the string;
# class invariant, established by frozen__from_write: the file decodes to the string.

def _const_str_and_path_ok(c):
    return file_text(c._contents_as_existing_file) == c._contents_as_str \
        and (c._contents_as_lines is None
             or (isinstance(c._contents_as_lines, list) and is_split_nl(c._contents_as_lines, c._contents_as_str)))


CONST_STR_AND_PATH = Inst(frozen._StringSourceContentsOfConstStrAndExistingPath, _invariant=_const_str_and_path_ok,
                          _contents_as_str=Str, _contents_as_lines=Opt(ListOf(Str)),
                          _contents_as_existing_file=Iface(PathI), _tmp_file_space=Iface(DirFileSpaceI))

_P_CSP = P_FROZEN + ':_StringSourceContentsOfConstStrAndExistingPath'

M.contract(_P_CSP + '.as_str', params=dict(self=CONST_STR_AND_PATH), inline=True,
           old=lambda self: txt_of(self),
           ensures={'as_str == txt': lambda self, result: result == txt_of(self),
                    **_rereadable(_const_str_and_path_ok)}, raises_only=())

M.contract(_P_CSP + '.as_lines', params=dict(self=CONST_STR_AND_PATH), inline=True,
           old=lambda self: txt_of(self),
           ensures={'lines == split_nl(txt)': lambda self, yielded: is_split_nl(ctx_lines(yielded), txt_of(self)),
                    **_rereadable(_const_str_and_path_ok)},
           replay=lambda model, rf: replays_c14.source('lines_of_const_str_and_path'),
           raises_only=())

M.contract(_P_CSP + '.as_file', params=dict(self=CONST_STR_AND_PATH), inline=True,
           old=lambda self: txt_of(self),
           ensures={'file decodes to txt': lambda self, result: file_text(result) == txt_of(self),
                    **_rereadable(_const_str_and_path_ok)}, raises_only=())

M.contract(_P_CSP + '.write_to', params=dict(self=CONST_STR_AND_PATH, output=Iface(TextOutI)), inline=True,
           old=lambda self, output: (written(output), txt_of(self)),
           ensures={'appends txt': lambda self, output, old: written(output) == old[0] + txt_of(self),
                    **_rereadable(_const_str_and_path_ok, at=1)},
           raises_only=())


# ============================================================================== the defaults of the base classes
# as_str / write_to in terms of the (abstract) as_lines: proved for an arbitrary object whose as_lines
# yields split_nl(txt).

M.contract(P_CONTENTS + ':StringSourceContents.as_str', params=dict(self=SSC), inline=True,
           ensures={'as_str == txt': lambda self, result: result == self.txt}, raises_only=())
M.contract(P_CONTENTS + ':StringSourceContents.write_to', params=dict(self=SSC, output=Iface(TextOutI)), inline=True,
           old=lambda output: written(output),
           ensures={'appends txt': lambda self, output, old: written(output) == old + self.txt},
           raises_only=())


# ============================================================================== ContentsViaWriteTo
# txt := the writer's output as decoded from the file it is stored in (as_str / as_lines / as_file all
# read that file).  write_to before the file exists hands the writer's raw output on instead.

CONTENTS_VIA_WRITE_TO = Inst(contents_via_write_to.ContentsViaWriteTo, _invariant=cached_path_ok,
                             _tmp_file_space=Iface(DirFileSpaceI), _writer=Iface(WriterI), _file_name=Opt(Str),
                             _as_file_path=Opt(Iface(PathI)))

M.contract(P_CVWT + ':ContentsViaWriteTo.as_str', params=dict(self=CONTENTS_VIA_WRITE_TO), inline=True,
           old=lambda self: txt_of(self),
           ensures={'as_str == txt': lambda self, result: result == txt_of(self), **_rereadable(cached_path_ok)},
           raises_only=())

M.contract(P_CVWT + ':ContentsViaWriteTo.as_lines', params=dict(self=CONTENTS_VIA_WRITE_TO), inline=True,
           old=lambda self: txt_of(self),
           ensures={'lines == split_nl(txt)': lambda self, yielded: is_split_nl(ctx_lines(yielded), txt_of(self)),
                    **_rereadable(cached_path_ok)},
           raises_only=())

M.contract(P_CVWT + ':ContentsViaWriteTo.write_to',
           params=dict(self=CONTENTS_VIA_WRITE_TO, output=Iface(TextOutI)), inline=True,
           old=lambda self, output: (written(output), txt_of(self)),
           ensures={'appends txt': lambda self, output, old: written(output) == old[0] + txt_of(self),
                    **_rereadable(cached_path_ok, at=1)},
           replay=lambda model, rf: replays_c14.source('write_to_of_via_write_to'),
           raises_only=())

# ============================================================================== the cached file (as_file / _to_file)

# ============================================================================== transformed contents (lines -> lines)
# StringTransFun = Callable[[Iterator[str]], Iterator[str]].  The contract of a lines transformation: there is
# a function F on texts such that, given the lines of a text t (a proper division: obligation at the call),
# it yields the lines of F(t).  Proved for the identity transformer below and for `replace` in C05
# (`_lines_iterator_from_replacements` yields split_nl of the concatenated replacements); `filter` in C13.

def _lines_fn_call(interp, self, args, kwargs):
    from pyvc import models as _m
    lines = _m.as_siter(interp, _res(interp, args[0]))
    xs = texts.m_peek(interp, [lines], {})
    t = texts.join_all(interp, xs)
    ok = interp.truth(interp.call(is_split_nl, [xs, t]))
    interp.st.oblige('%s : requires of LinesFnI.__call__ (the input is a division into lines)'
                     % interp.current_function_name(), ok, {'kind': 'callee-pre'})
    interp.st.assume(ok)
    out = interp.reg.call_opaque(interp, self, 'F', [t], {})
    return SIter(texts.lines_of_text(interp, out), 0)


class LinesFnI(Interface):
    methods = {'F': Method(returns=Str, pure=True), '__call__': Method(model=_lines_fn_call)}


TRANSFORMED_CONTENTS = Inst(tss_prims._TransformedStringSourceContentsFromLines, _invariant=cached_path_ok,
                            _transformed=SSC, _transformation=Iface(LinesFnI),
                            _transformation_may_depend_on_external_resources=Bool,
                            _as_file_path=Opt(Iface(PathI)), _file_name=Const(None))
_P_TC = P_TSS + ':_TransformedStringSourceContentsFromLines'

M.contract(_P_TC + '.as_lines', params=dict(self=TRANSFORMED_CONTENTS), inline=True,
           old=lambda self: txt_of(self),
           ensures={'lines == split_nl(txt)': lambda self, yielded: is_split_nl(ctx_lines(yielded), txt_of(self)),
                    **_rereadable(cached_path_ok)},
           raises_only=())
M.contract(_P_TC + '.tmp_file_space', params=dict(self=TRANSFORMED_CONTENTS), inline=True,
           ensures={'of the source': lambda self, result: result is self._transformed.tmp_file_space},
           raises_only=())

M.contract(P_CWCP + ':ContentsWithCachedPathFromAsLinesBase.as_str', params=dict(self=TRANSFORMED_CONTENTS), inline=True,
           old=lambda self: txt_of(self),
           ensures={'as_str == txt': lambda self, result: result == txt_of(self), **_rereadable(cached_path_ok)},
           raises_only=())
M.contract(P_CWCP + ':ContentsWithCachedPathFromAsLinesBase.write_to',
           params=dict(self=TRANSFORMED_CONTENTS, output=Iface(TextOutI)), inline=True,
           old=lambda self, output: (written(output), txt_of(self)),
           ensures={'appends txt': lambda self, output, old: written(output) == old[0] + txt_of(self),
                    **_rereadable(cached_path_ok, at=1)},
           raises_only=())

# --- filter/string_sources.TransformedContentsViaAsLinesBase (base of the line-number filters): the abstract
# `_transform_lines` is a lines transformation (LinesFnI; for `filter` proved in C13)
class _ViaAsLines(filter_sources.TransformedContentsViaAsLinesBase):
    """a concrete subclass for the proof: the abstract `_transform_lines` is the instance attribute of that name"""
    may_depend_on_external_resources = True

    def _transform_lines(self, lines):
        raise NotImplementedError('abstract in the proof')


VIA_AS_LINES = Inst(_ViaAsLines, _invariant=cached_path_ok,
                    _source=SS, _file_name=Opt(Str), _as_file_path=Opt(Iface(PathI)), _transform_lines=Iface(LinesFnI))
_P_VAL = 'exactly_lib.impls.types.string_transformer.impl.filter.string_sources:TransformedContentsViaAsLinesBase'

M.contract(_P_VAL + '.as_lines', params=dict(self=VIA_AS_LINES), inline=True,
           old=lambda self: txt_of(self),
           ensures={'lines == split_nl(txt)': lambda self, yielded: is_split_nl(ctx_lines(yielded), txt_of(self)),
                    **_rereadable(cached_path_ok)},
           raises_only=())
M.contract(_P_VAL + '.as_str', params=dict(self=VIA_AS_LINES), inline=True,
           old=lambda self: txt_of(self),
           ensures={'as_str == txt': lambda self, result: result == txt_of(self), **_rereadable(cached_path_ok)},
           raises_only=())
M.contract(_P_VAL + '.write_to', params=dict(self=VIA_AS_LINES, output=Iface(TextOutI)), inline=True,
           old=lambda self, output: (written(output), txt_of(self)),
           ensures={'appends txt': lambda self, output, old: written(output) == old[0] + txt_of(self),
                    **_rereadable(cached_path_ok, at=1)},
           raises_only=())
M.contract(_P_VAL + '._to_file', params=dict(self=VIA_AS_LINES), inline=True,
           ensures={'file decodes to txt': lambda self, result: file_text(result) == txt_of(self),
                    'the file stores the text as written': lambda self, result: file_stored(result) == txt_of(self)},
           replay=lambda model, rf: replays_c14.source('as_file_of_contents_of_str'),
           raises_only=())

WITH_CACHED_PATH_FROM_WRITE_TO = Union(CONTENTS_OF_STR, CONTENTS_VIA_WRITE_TO, TRANSFORMED_CONTENTS)

M.contract(P_CWCP + ':ContentsWithCachedPathFromWriteToBase._to_file',
           params=dict(self=WITH_CACHED_PATH_FROM_WRITE_TO), inline=True,
           requires=lambda self: self._as_file_path is None,        # the only caller: as_file, when nothing is cached
           ensures={'file decodes to txt': lambda self, result: file_text(result) == txt_of(self),
                    'the file stores the text as written': lambda self, result: file_stored(result) == raw_txt_of(self)},
           replay=lambda model, rf: replays_c14.source('as_file_of_contents_of_str'),
           raises_only=())

M.contract(P_CWCP + ':StringSourceContentsWithCachedPath.as_file',
           params=dict(self=Union(CONTENTS_OF_STR, CONTENTS_VIA_WRITE_TO, TRANSFORMED_CONTENTS, VIA_AS_LINES)), inline=True,
           old=lambda self: (txt_of(self), self._as_file_path),
           ensures={'file decodes to txt': lambda self, result: file_text(result) == txt_of(self),
                    'the path is cached': lambda self, result: self._as_file_path is result,
                    # (the two clauses below do not depend on decoding: they hold for texts with \r too, where
                    #  'file decodes to txt' and the class invariant afterwards are refuted = the known finding)
                    'the file is made once: a cached path is kept': lambda self, result, old:
                    old[1] is None or result is old[1],
                    'a new file stores the text as written': lambda self, result, old:
                    old[1] is not None or file_stored(result) == raw_txt_of(self),
                    **_rereadable(cached_path_ok, at=0)},
           replay=lambda model, rf: replays_c14.source('as_file_of_contents_of_str'),
           raises_only=())


# ============================================================================== SpooledTextFile
# Ghost: `spooled_written(f)` -- everything written so far.  Invariant `spooled_ok(f)`:
#   memory state (_path is None): _file is the StringIO, its value is what was written, and it fits
#   disk state:                   _file is the file at _path opened for update, the file holds what was
#                                 written, and the position is the end of the file (so that further
#                                 writes append).

def sio_value(sio):
    return sio.getvalue()


def sio_position(sio):
    """position of a StringIO, in characters"""
    return sio.tell()


def is_file_at(fileobj, path):
    import os
    return os.path.samefile(fileobj.name, str(path))


def file_position(fileobj):
    """position of a text file on disk, as the number of characters before it"""
    fileobj.flush()
    cookie = fileobj.tell()          # a flushed UTF-8 file without pending decoder state: the byte offset
    with open(fileobj.name, 'rb') as f:
        return len(f.read(cookie).decode(fileobj.encoding, errors='replace'))


def positioned_at_end(fileobj):
    return file_position(fileobj) == len(file_stored(fileobj.name))


def _g(interp, args, key):
    return _res(interp, args[0])._pv_ghost[key]


M.model(sio_value, lambda interp, args, kwargs: wrap(textio._sio_value(interp, _res(interp, args[0]))))
M.model(sio_position, lambda interp, args, kwargs: wrap(textio.pos_of(interp, _res(interp, args[0]))))
M.model(is_file_at, lambda interp, args, kwargs: _g(interp, args, 'path') is _res(interp, args[1]))
M.model(file_position, lambda interp, args, kwargs: wrap(textio.pos_of(interp, _res(interp, args[0]))))
M.model(positioned_at_end, lambda interp, args, kwargs:
        wrap(textio.pos_of(interp, _res(interp, args[0]))
             == z3.Length(textio.stored_of(interp, _g(interp, args, 'path')))))


def spooled_written(f):
    if f._path is None:
        return sio_value(f._file)
    f._file.flush()
    return file_stored(f._path)


def _m_spooled_written(interp, args, kwargs):
    """proof level: the ghost contents, WITHOUT the flush the native observation needs -- an observation must not
    change the (ghost) state it observes: whether the file object has been flushed matters when a child process
    is given the file (T14)"""
    f = _res(interp, args[0])
    if f._path is None:
        return interp.call(sio_value, [f._file])
    return interp.call(file_stored, [f._path])


M.model(spooled_written, _m_spooled_written)


def spooled_position(f):
    """the position, in characters of what has been written"""
    return sio_position(f._file) if f._path is None else file_position(f._file)


def spooled_ok(f):
    """the state of a file that is being written sequentially: positioned at the end of what was written;
    in memory only while it fits"""
    if f._path is None:
        return len(sio_value(f._file)) <= f._max_size and sio_position(f._file) == len(sio_value(f._file))
    return is_file_at(f._file, f._path) and positioned_at_end(f._file)


def nothing_buffered(fileobj):
    """everything written through the file object has reached the file (ghost; not observable natively)"""
    return True


M.model(nothing_buffered, lambda interp, args, kwargs: textio.nothing_buffered(interp, _res(interp, args[0])))


def _at_end(f):
    return spooled_position(f) == len(spooled_written(f))


class UnusedPathFnI(Interface):
    """get_unused_path: gives a path that is not in use (environment assumption, as DirFileSpace.new_path)"""
    methods = {'__call__': Method(model=lambda interp, self, args, kwargs: textio.new_unused_path(interp, 'unused'))}


def _new_disk_file(interp, name, path):
    """a file at `path` opened for update, at an arbitrary position (attribute pos0 of the model)"""
    df = new_opaque(interp, TextFileI, name)
    df._pv_ghost.update(path=path, mode='x+', closed=False, cookies={})
    return df


def _mk_spooled(state, ok=True):
    def make(interp, name):
        f = Inst(spooled_file.SpooledTextFile, _max_size=Pos, _get_unused_path=Iface(UnusedPathFnI)).make(interp, name)
        if state == 'mem':
            f._path = None
            f._file = new_opaque(interp, StringIOI, name + '._file')
        else:
            f._path = new_opaque(interp, PathI, name + '._path')
            f._file = _new_disk_file(interp, name + '._file', f._path)
        if ok is True:
            interp.st.assume(interp.truth(interp.call(spooled_ok, [f])))
        elif ok == 'at-end':
            interp.st.assume(interp.truth(interp.call(_at_end, [f])))
        return f

    return Custom(make)


SPOOLED_MEM = _mk_spooled('mem')
SPOOLED_DISK = _mk_spooled('disk')
SPOOLED = Union(SPOOLED_MEM, SPOOLED_DISK)
# _check is entered when the buffer may just have been exceeded (by sequential writing: positioned at the end)
SPOOLED_MEM_ANY_SIZE = _mk_spooled('mem', ok='at-end')
# _rollover: any size, any position (e.g. `seek(0)` followed by `fileno()`)
SPOOLED_MEM_ANY = _mk_spooled('mem', ok=False)
SPOOLED_DISK_ANY = _mk_spooled('disk', ok=False)


def _havoc_spooled(interp, f, tag, to_disk=False):
    """in-place havoc of a SpooledTextFile: it stays what it is with other contents, or (from the memory
    state) has been rolled over to a new file on disk"""
    def any_pos(o, contents):
        k = interp.st.fresh_int(tag + '.pos')
        interp.st.assume(z3.And(k >= 0, k <= z3.Length(contents)))
        o._pv_ghost['pos'] = k

    if f._path is not None:
        t = interp.st.fresh_str(tag + '.stored')
        textio.set_stored(interp, f._path, t)
        any_pos(f._file, t)
        return
    if not to_disk and interp.st.choose(2) == 0:
        t = interp.st.fresh_str(tag + '.value')
        f._file._pv_ghost['value'] = t
        any_pos(f._file, t)
    else:
        p = new_opaque(interp, PathI, tag + '._path')
        t = interp.st.fresh_str(tag + '.stored')
        textio.set_stored(interp, p, t)
        f._path = p
        f._file = _new_disk_file(interp, tag + '._file', p)
        # (clause 'rolled over from memory: nothing is left in the buffer of the new file object' of _rollover)
        f._file._pv_ghost['dirty'] = False
        any_pos(f._file, t)


_P_STF = P_SPOOLED + ':SpooledTextFile'

M.contract(_P_STF + '.__init__',
           params=dict(self=Inst(spooled_file.SpooledTextFile), mem_buff_size=Int, get_unused_path=Iface(UnusedPathFnI)),
           requires=lambda mem_buff_size: mem_buff_size >= 1, inline=True,
           ensures={'empty memory buffer': lambda self: self._path is None and spooled_ok(self)
                                                        and spooled_written(self) == '',
                    'size': lambda self, mem_buff_size: self._max_size == mem_buff_size},
           raises_only=())

M.contract(_P_STF + '._rollover', params=dict(self=Union(SPOOLED_MEM_ANY, SPOOLED_DISK_ANY)),
           old=lambda self: (spooled_written(self), self._path, self._max_size, spooled_position(self)),
           modifies={'self': InPlaceBy(lambda interp, f, tag: _havoc_spooled(interp, f, tag, to_disk=True))},
           ensures={
               'on disk': lambda self, old: self._path is not None and (old[1] is None or self._path is old[1])
                                            and is_file_at(self._file, self._path),
               'the disk file holds what was written': lambda self, old: spooled_written(self) == old[0],
               'positioned at the character the buffer was positioned at (after sequential writing: the end)':
                   lambda self, old: spooled_position(self) == old[3],
               'size unchanged': lambda self, old: self._max_size == old[2],
               # (T14) the final seek flushes: a child process that is given the file next writes AFTER the text
               'rolled over from memory: nothing is left in the buffer of the new file object':
                   lambda self, old: old[1] is not None or nothing_buffered(self._file),
           },
           replay=lambda model, rf: replays_c14.source('rollover_position'),
           raises_only=())

M.contract(_P_STF + '._check', params=dict(self=SPOOLED_MEM_ANY_SIZE, file=Any_), inline=True,
           setup=lambda interp, args, ghosts: args.__setitem__('file', args['self']._file),     # file is self._file
           old=lambda self: spooled_written(self),
           ensures={'nothing lost': lambda self, old: spooled_written(self) == old,
                    'invariant': lambda self: spooled_ok(self)}, raises_only=())

M.contract(_P_STF + '.write', params=dict(self=SPOOLED, s=Str),
           old=lambda self: (spooled_written(self), self._path is None, self._max_size),
           modifies={'self': InPlaceBy(_havoc_spooled)},
           ensures={
               'appends s': lambda self, s, old: spooled_written(self) == old[0] + s,
               'invariant': lambda self: spooled_ok(self),
               'memory buffer iff it was one and everything fits':
                   lambda self, s, old: iff(self._path is None, old[1] and len(old[0] + s) <= self._max_size),
               'size unchanged': lambda self, old: self._max_size == old[2],
           }, raises_only=())

def _consume_iter(interp, it, tag):
    """the callee reads from the iterator it is given: its position afterwards is arbitrary, not before the old one"""
    from pyvc import models
    from pyvc.values import to_z3, wrap
    it = models.as_siter(interp, it)
    p0 = to_z3(it.pos) if not isinstance(it.pos, int) else z3.IntVal(it.pos)
    p1 = interp.st.fresh_int(tag + '.pos')
    interp.st.assume(z3.And(p1 >= p0, p1 <= it.xs.length))
    it.pos = wrap(p1)


M.contract(_P_STF + '.writelines', params=dict(self=SPOOLED, lines=IterOf(Str)),
           old=lambda self, lines: (spooled_written(self), self._path is None, self._max_size, join_of(peek(lines))),
           modifies={'self': InPlaceBy(_havoc_spooled), 'lines': InPlaceBy(_consume_iter)},
           ensures={
               'appends the lines': lambda self, old: spooled_written(self) == old[0] + old[3],
               'invariant': lambda self: spooled_ok(self),
               'memory buffer iff it was one and everything fits':
                   lambda self, old: iff(self._path is None, old[1] and len(old[0] + old[3]) <= self._max_size),
               'size unchanged': lambda self, old: self._max_size == old[2],
           }, raises_only=())


def _writelines_inv(self, file, max_size, lines, old, _i, _n, _xs):
    if self._path is None:
        return self._file is file and sio_value(file) == old[0] + prefix_join(_xs, _i) \
            and sio_position(file) == len(sio_value(file)) \
            and len(sio_value(file)) <= max_size and max_size == self._max_size and self._max_size == old[2]
    return _i == _n and old[1] and spooled_ok(self) and spooled_written(self) == old[0] + prefix_join(_xs, _n) \
        and len(old[0] + prefix_join(_xs, _n)) > self._max_size and self._max_size == old[2]


M.loop(_P_STF + '.writelines', 0, invariant=_writelines_inv,
       modifies={'file': InPlace(value=Str, pos=Int), 'self': InPlaceBy(_havoc_spooled), '@self._file': None, 'line': 'local'})

M.contract(_P_STF + '.is_mem_buff', params=dict(self=SPOOLED), inline=True,
           ensures={'tells the state': lambda self, result: result == (self._path is None)}, raises_only=())
M.contract(_P_STF + '.is_file_on_disk', params=dict(self=SPOOLED), inline=True,
           ensures={'tells the state': lambda self, result: result == (self._path is not None)}, raises_only=())

M.contract(_P_STF + '.mem_buff', params=dict(self=SPOOLED), inline=True,
           raises={ValueError: {'when': lambda self: self._path is not None}},
           ensures={'what was written': lambda self, result: result == spooled_written(self)}, raises_only=())

M.contract(_P_STF + '.path_of_file_on_disk', params=dict(self=SPOOLED), inline=True,
           raises={ValueError: {'when': lambda self: self._path is None}},
           ensures={'the path': lambda self, result: result is self._path}, raises_only=())


# ============================================================================== frozen__from_write

def file_size(path):
    import os
    return os.path.getsize(str(path))


M.model(file_size, lambda interp, args, kwargs:
        wrap(textio.blen(interp, textio.stored_of(interp, _res(interp, args[0])))))


def writer_txt(w):
    if is_opaque(w):
        return w.txt
    if isinstance(w, cached_frozen._ContentsWriter):
        return txt_of(w._contents)
    raise ValueError('writer_txt: unexpected class %r' % (type(w),))


CONTENTS_WRITER = Inst(cached_frozen._ContentsWriter, _contents=SSC)
ANY_WRITER = Union(Iface(WriterI), CONTENTS_WRITER)

M.contract(P_CACHED + ':_ContentsWriter.write',
           params=dict(self=CONTENTS_WRITER, tmp_file_space=Iface(DirFileSpaceI), output=Iface(TextOutI)),
           inline=True, old=lambda output: written(output),
           ensures={'appends txt': lambda self, output, old: written(output) == old + writer_txt(self)},
           raises_only=())

M.contract(P_FROZEN + ':_size_of_file_on_disk', params=dict(f=SPOOLED_DISK), returns=Int,
           old=lambda f: (spooled_written(f), f._path),
           modifies={'f': InPlaceBy(_havoc_spooled)},
           ensures={'size in bytes': lambda f, result: result == file_size(f._path),
                    'file untouched': lambda f, old: spooled_written(f) == old[0] and f._path is old[1]
                                                     and spooled_ok(f)},
           raises_only=())

M.contract(P_FROZEN + ':_contents_of_file__if_fits_within_mem_buff',
           params=dict(f=SPOOLED_DISK, mem_buff_size=Int), returns=Opt(Str),
           old=lambda f: (spooled_written(f), f._path),
           modifies={'f': InPlaceBy(_havoc_spooled)},
           ensures={'the decoded file, if any': lambda f, result: result is None or result == file_text(f._path),
                    'none iff too big': lambda f, mem_buff_size, result:
                    iff(result is None, file_size(f._path) > mem_buff_size),
                    'file untouched': lambda f, old: file_stored(f._path) == old[0] and f._path is old[1]},
           raises_only=())


def implements_i_ssc(c):
    """the result is an instance of a class proved (above) to implement I_SSC, in a state satisfying
    that class's invariant"""
    if is_opaque(c):
        return True
    if isinstance(c, contents_of_str.ContentsOfStr):
        return cached_path_ok(c)
    if isinstance(c, frozen._StringSourceContentsOfConstStrAndExistingPath):
        return _const_str_and_path_ok(c)
    return isinstance(c, contents_of_existing_path.StringSourceContentsOfExistingPath)


M.contract(P_FROZEN + ':frozen__from_write',
           params=dict(mem_buff_size=Int, writer=ANY_WRITER, tmp_file_space=Iface(DirFileSpaceI), file_name=Opt(Str)),
           requires=lambda mem_buff_size: mem_buff_size >= 1,
           returns=SSC,
           ensures={
               'kept in memory: the frozen text is the text written': lambda writer, result:
               is_opaque(result) or not isinstance(result, contents_of_str.ContentsOfStr)
               or txt_of(result) == writer_txt(writer),
               'spilled to disk: the frozen text is the text written': lambda writer, result:
               is_opaque(result) or isinstance(result, contents_of_str.ContentsOfStr)
               or txt_of(result) == writer_txt(writer),
               '(for the users of the contract) the frozen text is the text written': lambda writer, result:
               (not is_opaque(result)) or result.txt == writer_txt(writer),
               'implements I_SSC': lambda result: implements_i_ssc(result),
               'kept in memory iff it fits in the buffer': lambda writer, mem_buff_size, result:
               is_opaque(result) or iff(isinstance(result, contents_of_str.ContentsOfStr),
                                        len(writer_txt(writer)) <= mem_buff_size),
           }, replay=lambda model, rf: replays_c14.source('frozen_from_write'),
           raises_only=())


# ============================================================================== cached_frozen
# _FreezingStringSourceContents: txt := the text of the unfrozen contents; the first access writes it
# through frozen__from_write (contract above) and every access is answered by the frozen contents.

def _freezing_ok(c):
    return c._mem_buff_size >= 1 and (c._contents is None or c._contents.txt == c._unfrozen.txt)


FREEZING = Inst(cached_frozen._FreezingStringSourceContents, _invariant=_freezing_ok,
                _unfrozen=SSC, _contents=Opt(SSC), _mem_buff_size=Int, _file_name_suffix=Opt(Str))
_P_FRZ = P_CACHED + ':_FreezingStringSourceContents'

M.contract(_P_FRZ + '._new_frozen', params=dict(self=FREEZING), inline=True,
           ensures={'the frozen text is the text': lambda self, result: txt_of(result) == txt_of(self)},
           raises_only=())

M.contract(_P_FRZ + '._get_contents', params=dict(self=FREEZING), inline=True,
           old=lambda self: self._contents,
           ensures={'has the text': lambda self, result: txt_of(result) == txt_of(self),
                    'frozen once': lambda self, result, old: self._contents is result
                                                             and (old is None or result is old),
                    'invariant': lambda self: _freezing_ok(self)},
           raises_only=())

M.contract(_P_FRZ + '.as_str', params=dict(self=FREEZING), inline=True,
           old=lambda self: txt_of(self),
           ensures={'as_str == txt': lambda self, result: result == txt_of(self), **_rereadable(_freezing_ok)},
           raises_only=())

M.contract(_P_FRZ + '.as_lines', params=dict(self=FREEZING), inline=True,
           old=lambda self: txt_of(self),
           ensures={'lines == split_nl(txt)': lambda self, result: is_split_nl(with_lines(result), txt_of(self)),
                    **_rereadable(_freezing_ok)},
           raises_only=())

M.contract(_P_FRZ + '.as_file', params=dict(self=FREEZING), inline=True,
           old=lambda self: txt_of(self),
           ensures={'file decodes to txt': lambda self, result: file_text(result) == txt_of(self),
                    **_rereadable(_freezing_ok)}, raises_only=())

M.contract(_P_FRZ + '.write_to', params=dict(self=FREEZING, output=Iface(TextOutI)), inline=True,
           old=lambda self, output: (written(output), txt_of(self)),
           ensures={'appends txt': lambda self, output, old: written(output) == old[0] + txt_of(self),
                    **_rereadable(_freezing_ok, at=1)},
           raises_only=())

M.contract(_P_FRZ + '.tmp_file_space', params=dict(self=FREEZING), inline=True,
           ensures={'of the unfrozen': lambda self, result: result is self._unfrozen.tmp_file_space},
           raises_only=())

# --- StringSourceWithCachedFrozen: the text of contents() is the same before and after freeze()

CACHED_FROZEN = Inst(cached_frozen.StringSourceWithCachedFrozen,
                     _invariant=lambda self: self._mem_buff_size >= 1,
                     _new_structure_builder=Any_, _mem_buff_size=Int, _name_suffix=Opt(Str),
                     _contents=Union(SSC, FREEZING), _is_frozen=Bool)
_P_SSCF = P_CACHED + ':StringSourceWithCachedFrozen'

M.contract(_P_SSCF + '.contents', params=dict(self=CACHED_FROZEN), inline=True,
           ensures={'the contents': lambda self, result: result is self._contents}, raises_only=())

M.contract(_P_SSCF + '.freeze', params=dict(self=CACHED_FROZEN),
           old=lambda self: (txt_of(self._contents), self._contents, self._is_frozen),
           modifies={'self._contents': FREEZING, 'self._is_frozen': Bool},
           ensures={
               'same text before and after freeze': lambda self, old: txt_of(self.contents()) == old[0],
               'frozen': lambda self: self._is_frozen,
               'idempotent': lambda self, old: (not old[2]) or self._contents is old[1],
               'the new contents implement I_SSC': lambda self, old:
               old[2] or (isinstance(self._contents, cached_frozen._FreezingStringSourceContents)
                          and _freezing_ok(self._contents)),
           }, raises_only=())

M.contract(_P_SSCF + '.__init__',
           params=dict(self=Inst(cached_frozen.StringSourceWithCachedFrozen), new_structure_builder=Any_, unfrozen=SSC,
                       mem_buff_size=Int, name_suffix=Opt(Str)), inline=True,
           ensures={'unfrozen contents': lambda self, unfrozen: self.contents() is unfrozen and not self._is_frozen},
           raises_only=())


# ============================================================================== TransformedStringSourceFromLines
# the StringSource of `-transformed-by`: its text is F(text of the transformed source), before and after freeze

def ss_txt(s):
    """the text of a source: that of its current contents"""
    return txt_of(s.contents())


def _transformed_source_ok(s):
    return s._contents._transformation is s._transformation \
        and txt_of(s._contents._transformed) == s._transformed.txt and cached_path_ok(s._contents)


def _mk_transformed_source(interp, name):
    s = Inst(tss_prims.TransformedStringSourceFromLines, _transformed=SS, _transformation=Iface(LinesFnI),
             _transformation_may_depend_on_external_resources=Bool, _get_transformer_structure=Any_,
             _is_frozen=Bool).make(interp, name)
    c = TRANSFORMED_CONTENTS.make(interp, name + '._contents')
    c._transformation = s._transformation
    s._contents = c
    assume_pred(interp, _transformed_source_ok, s)
    return s


TRANSFORMED_SOURCE = Custom(_mk_transformed_source)
_P_TS = P_TSS + ':TransformedStringSourceFromLines'


def freeze_events(trace, source):
    return [e for e in trace if e[0] == 'freeze' and e[1] is source]


M.contract(_P_TS + '.__init__',
           params=dict(self=Inst(tss_prims.TransformedStringSourceFromLines), transformation=Iface(LinesFnI),
                       transformed=SS, transformation_may_depend_on_external_resources=Bool,
                       get_transformer_structure=Any_), inline=True,
           ensures={'text is F(text of the transformed)': lambda self, transformation, transformed:
                    ss_txt(self) == transformation.F(transformed.txt),
                    'invariant': lambda self: _transformed_source_ok(self) and not self._is_frozen,
                    'the source is not frozen by construction': lambda transformed, trace:
                    freeze_events(trace, transformed) == []},
           raises_only=())

M.contract(_P_TS + '.contents', params=dict(self=TRANSFORMED_SOURCE), inline=True,
           ensures={'the contents': lambda self, result: result is self._contents}, raises_only=())

M.contract(_P_TS + '.freeze', params=dict(self=TRANSFORMED_SOURCE),
           old=lambda self: (ss_txt(self), self._is_frozen, self._contents),
           ensures={
               'same text before and after freeze': lambda self, old: ss_txt(self) == old[0],
               'invariant': lambda self: _transformed_source_ok(self) and self._is_frozen,
               'freezes the transformed source, once': lambda self, old, trace:
               len(freeze_events(trace, self._transformed)) == (0 if old[1] else 1),
               'idempotent': lambda self, old: (not old[1]) or self._contents is old[2],
           }, raises_only=())

# ============================================================================== identity / && / ||

from exactly_lib.impls.types.string_transformer.impl import identity as identity_mod            # noqa: E402
from exactly_lib.impls.types.string_matcher import parse_string_matcher                        # noqa: E402

P_IDENTITY = 'exactly_lib.impls.types.string_transformer.impl.identity'
IDENTITY = Inst(identity_mod.IdentityStringTransformer, _structure_renderer=Any_)

M.contract(P_IDENTITY + ':IdentityStringTransformer._transform', params=dict(self=IDENTITY, lines=IterOf(Str)),
           inline=True, props=('C14', 'C05'), ensures={'the lines themselves': lambda lines, result: result is lines}, raises_only=())

M.contract('exactly_lib.impls.types.string_transformer.impl.sources.transformed_string_sources'
           ':StringTransformerFromLinesTransformer.transform',
           params=dict(self=IDENTITY, model=SS), props=('C14', 'C05'),
           ensures={
               'wrapped in identity: same characters': lambda model, result: result.contents().as_str == model.txt,
               'wrapped in identity: same lines': lambda model, result:
               is_split_nl(with_lines(result.contents().as_lines), model.txt),
               'does not freeze or consume the model': lambda model, trace: freeze_events(trace, model) == [],
           }, raises_only=())

M.contract('exactly_lib.impls.types.string_matcher.parse_string_matcher:_model_freezer', params=dict(model=SS),
           ensures={'the model itself': lambda model, result: result is model,
                    '&& and || freeze the model, once, and do nothing else to it': lambda model, trace:
                    len(freeze_events(trace, model)) == 1 and len(trace) == len([e for e in trace if e[1] is model])},
           raises_only=())


# ============================================================================== equals: both texts in files
# `_ExtDepsOfBothHandler._do_compare` compares the two files byte-wise (filecmp), the other three
# strategies of `equals` (C05) compare text: the verdict must be the same.

from exactly_lib.impls.types.string_matcher.impl import equality as equality_mod                 # noqa: E402

P_EQ = 'exactly_lib.impls.types.string_matcher.impl.equality'

M.contract(P_EQ + ':_ExtDepsOfBothHandler._do_compare',
           params=dict(self=Inst(equality_mod._ExtDepsOfBothHandler, _result_for_match=Any_,
                                 _build_result_for_no_match=Any_, _expected=Iface(PathI)),
                       processed_actual_file_path=Iface(PathI)),
           returns=Bool, props=('C14', 'C05'),
           ensures={'equal iff the two texts are equal': lambda self, processed_actual_file_path, result:
                    result == (file_text(processed_actual_file_path) == file_text(self._expected))},
           replay=lambda model, rf: replays_c14.source('do_compare'),
           raises_only=())


# ============================================================================== concatenation of sources
# txt := the concatenation of the texts of the parts.

CONCAT_CONTENTS = Inst(concat_mod._ConcatStringSourceContents, _invariant=cached_path_ok,
                       _parts=ListOf(SS, min_len=2), _file_name=Str, _as_file_path=Opt(Iface(PathI)))
_P_CC = P_CONCAT + ':_ConcatStringSourceContents'

M.contract(_P_CC + '.write_to', params=dict(self=CONCAT_CONTENTS, output=Iface(TextOutI)), inline=True,
           old=lambda self, output: (written(output), txt_of(self)),
           ensures={'appends txt': lambda self, output, old: written(output) == old[0] + txt_of(self),
                    **_rereadable(cached_path_ok, at=1)},
           raises_only=())
M.loop(_P_CC + '.write_to', 0,
       invariant=lambda self, output, old, _i: written(output) == old[0] + prefix_join(part_txts(self._parts), _i),
       modifies={'output': InPlace(written=Str), 'part': 'local'})

M.contract(_P_CC + '.tmp_file_space', params=dict(self=CONCAT_CONTENTS), inline=True,
           ensures={'of the first part': lambda self, result: result is self._parts[0].tmp_file_space},
           raises_only=())


# ============================================================================== trusted lemmas, platform models: cross-checks

def _all_texts(alphabet, max_len):
    import itertools
    for n in range(max_len + 1):
        for t in itertools.product(alphabet, repeat=n):
            yield ''.join(t)


def _all_divisions(t):
    """every way of cutting t into non-empty pieces"""
    if t == '':
        yield []
        return
    n = len(t)
    for mask in range(1 << (n - 1)):
        out = []
        cur = t[0]
        for i in range(1, n):
            if mask >> (i - 1) & 1:
                out.append(cur)
                cur = ''
            cur += t[i]
        out.append(cur)
        yield out


@M.check('lemmas')
def _lemmas(ctx):
    """The facts about the mathematical function split_nl that the proofs assume (pyvc.texts.lines_of_text) or
    that justify the interface abstraction, checked for every text up to length 7 over {a, b, \\n, \\r, \\f}."""
    exists_ok = unique_ok = empty_ok = count_ok = prefix_ok = rstrip_ok = True
    n_texts = n_div = 0
    bad = None
    for t in _all_texts('ab\n\r\x0c', 7 if ctx.tier == 'thorough' else 6):
        n_texts += 1
        canon = split_nl(t)
        if not is_split_nl(canon, t):
            exists_ok, bad = False, t
        if (len(canon) == 0) != (t == ''):
            empty_ok, bad = False, t
        if any(x.rstrip(NL) != text_spec.line_body(x) for x in canon):
            rstrip_ok, bad = False, t
        if text_spec.nlines_by_count(t) != len(canon):
            count_ok, bad = False, t
        for i in range(len(canon) + 1):
            if not t.startswith(prefix_join(canon, i)) or len(prefix_join(canon, i)) < i:
                prefix_ok, bad = False, t
        if len(t) <= 6:
            for xs in _all_divisions(t):
                n_div += 1
                if is_split_nl(xs, t) and xs != canon:
                    unique_ok, bad = False, (t, xs)
    d = {'texts': n_texts, 'divisions': n_div, 'counterexample': repr(bad)}
    ctx.obligation('lemma: split_nl(t) satisfies is_split_nl (the canonical division exists)', exists_ok, 'enumeration', d)
    ctx.obligation('lemma: is_split_nl(xs, t) implies xs == split_nl(t) (uniqueness: what a class proves of its '
                   'lines is what I_SSC gives its consumers)', unique_ok, 'enumeration', d)
    ctx.obligation('lemma: no lines iff the text is empty', empty_ok, 'enumeration', d)
    ctx.obligation("lemma: of a line, rstrip('\\n') is the line without its final new-line", rstrip_ok, 'enumeration', d)
    ctx.obligation('lemma: number of lines == count of \\n (+1 if the text does not end in \\n)', count_ok, 'enumeration', d)
    ctx.obligation('lemma: joined prefixes of the lines are prefixes of the text, i lines have >= i characters',
                   prefix_ok, 'enumeration', d)
    # the law pyvc.texts instantiates on request (`line_body_over_concat()`): for every a and every non-empty b,
    # line_body(a + b) == a + line_body(b)
    concat_ok, bad2, n_pairs = True, None, 0
    short = list(_all_texts('a\n\r', 4))
    for a in short:
        for b in short:
            if b == '':
                continue
            n_pairs += 1
            if text_spec.line_body(a + b) != a + text_spec.line_body(b):
                concat_ok, bad2 = False, (a, b)
    ctx.obligation('lemma: line_body(a + b) == a + line_body(b) for non-empty b', concat_ok, 'enumeration',
                   {'pairs': n_pairs, 'counterexample': repr(bad2)})


def _extra_break(s):
    """native counterpart of pyvc.textio._extra_break_re"""
    for i, c in enumerate(s[:-1]):
        if c in textio.SPLITLINES_EXTRA and not (c == '\r' and s[i + 1] == '\n'):
            return True
    return False


@M.check('platform-models')
def _platform(ctx):
    """The assumed contracts of pyvc/textio.py against CPython on this platform."""
    import filecmp
    import io
    import os
    import tempfile
    # (a) str.splitlines
    boundary = ''.join(chr(c) for c in range(0x110000) if len(('a' + chr(c) + 'b').splitlines(True)) == 2)
    ctx.obligation('str.splitlines boundary characters are exactly \\n and SPLITLINES_EXTRA (all 0x110000 code points)',
                   sorted(boundary) == sorted('\n' + textio.SPLITLINES_EXTRA), 'enumeration', {'boundary': repr(boundary)})
    ok = True
    bad = None
    n = 0
    for s in _all_texts('a\n\r\x0c ', 6):
        n += 1
        sl = s.splitlines(keepends=True)
        differs = sl != split_nl(s)
        if differs != _extra_break(s) or ''.join(sl) != s or (differs and not len(sl) > len(split_nl(s))):
            ok, bad = False, s
    ctx.obligation('model of str.splitlines(keepends=True): same as split_nl unless a boundary other than \\n is '
                   'followed by a character; then more pieces; pieces concatenate to the text', ok, 'enumeration',
                   {'texts': n, 'counterexample': repr(bad)})
    # (b) text files: universal newlines on reading, verbatim on writing
    d = tempfile.mkdtemp(prefix='c14-platform-')
    p = os.path.join(d, 'f')
    ok_read = ok_lines = ok_axioms = ok_write = True
    n = 0
    for s in _all_texts('a\n\r', 5):
        n += 1
        with open(p, 'w', newline='') as f:
            f.write(s)
        with open(p) as f:
            r = f.read()
        with open(p) as f:
            lines = list(f)
        if r != decoded(s):
            ok_read, bad = False, s
        if lines != split_nl(r):
            ok_lines, bad = False, s
        if not ((('\r' in s) or r == s) and ('\r' not in r) and len(r) <= len(s)):
            ok_axioms, bad = False, s
        with open(p, 'w') as f:
            f.write(s)
        if file_stored(p) != s:
            ok_write, bad = False, s
    det = {'texts': n, 'counterexample': repr(bad), 'os.linesep': repr(os.linesep)}
    ctx.obligation('reading a text file (newline=None): read() is the universal-newline decoding', ok_read, 'enumeration', det)
    ctx.obligation('iterating a text file yields split_nl(decoded text)', ok_lines, 'enumeration', det)
    ctx.obligation('facts assumed of univ_nl: identity without \\r, no \\r in the result, not longer', ok_axioms,
                   'enumeration', det)
    ctx.obligation('writing in text mode stores the text unchanged on this platform', ok_write, 'enumeration', det)
    # (c) byte length
    ok = all((len(chr(c).encode('utf-8')) >= 1) and ((len(chr(c).encode('utf-8')) == 1) == (c < 0x80))
             for c in list(range(0, 0x3000)) + [0xD7FF, 0xE000, 0xFFFF, 0x10000, 0x10FFFF])
    enc = io.TextIOWrapper(io.BytesIO()).encoding
    ctx.obligation('utf8_len: a character takes one byte iff it is ASCII (text files are opened with the locale '
                   'encoding: %s)' % enc, ok and enc.lower().replace('-', '') in ('utf8',), 'enumeration', {'encoding': enc})
    # (d) StringIO(newline='\n'), (e) filecmp
    ok = True
    for s in _all_texts('a\n\r\xe5', 4):
        sio = io.StringIO(newline='\n')
        sio.write(s)
        if sio.getvalue() != s or sio.tell() != len(s):
            ok = False
    ctx.obligation("io.StringIO(newline='\\n'): no translation, tell() is the number of characters", ok, 'enumeration')
    q = os.path.join(d, 'g')
    ok = True
    for a in ('', 'a\n', 'a\r\n', 'a\r', '\xe5'):
        for b in ('', 'a\n', 'a\r\n', 'a\r', '\xe5'):
            for path, t in ((p, a), (q, b)):
                with open(path, 'w', newline='') as f:
                    f.write(t)
            if filecmp.cmp(p, q, shallow=False) != (a == b):
                ok = False
            filecmp.clear_cache()
    ctx.obligation('filecmp.cmp(a, b, shallow=False) iff the two files hold the same bytes', ok, 'enumeration')
    import shutil
    shutil.rmtree(d, ignore_errors=True)


M.trust('pyvc/textio.py: assumed contracts of pathlib.Path.open / text files (universal newlines on reading, verbatim '
        'writing on POSIX, byte-offset positions), io.StringIO(newline="\\n"), os.fstat().st_size, filecmp.cmp(shallow=False), '
        'str.splitlines(keepends=True); cross-checked against CPython by the check `platform-models` on every run')
M.trust('pyvc/texts.py: nlines / line_at / lines_prefix are the mathematical function split_nl (its characterisation is '
        'assumed for the canonical list of a text); lemmas about it bounded-checked by the check `lemmas`')
M.assume('the environment does not fail: DirFileSpace.new_path / get_unused_path give paths that are not in use, file '
         'operations raise no OSError, text files use a UTF-8 (multi-byte) encoding')
M.assume('a text source is constant: a StringSource / Writer gives the same text at every access (I_SSC `txt`, SSI `txt`, '
         'WriterI `txt`); sources that vary over time (a program run twice) are outside the property -- freeze() exists for them')
M.assume('a lines transformation (StringTransFun) maps the lines of a text t to the lines of F(t) for a function F on texts '
         '(LinesFnI): proved for identity here, for `replace` re-splitting in C05, for `filter` in C13; other transformers assumed')
M.assume('parameter shapes are the states reachable through the constructors (class invariants `cached_path_ok`, '
         '`spooled_ok`, `_freezing_ok`, `_transformed_source_ok` are established by the __init__ contracts and preserved by '
         'every method under contract); mem_buff_size >= 1 as the property quantifies')


# ------------------------------------------------------------------------------ concat: the lines of the concatenation
# `_lines_iter` joins the last line of a part that lacks its new-line with the first line of the next
# non-empty part.  Ghost: P = the texts of the parts, Y = what has been yielded, L = the pending line ('' if
# none).  Invariant of the loop over the parts: join(Y) + L == P[0] + ... + P[i-1], every yielded line is
# complete (ends in \n), the pending line contains no \n.

M.contract(P_CONCAT + ':_is_ended_by_new_line', params=dict(s=Str), returns=Bool,
           ensures={'ends in new-line': lambda s, result: result == s.endswith(NL)}, raises_only=())


def _pending(last):
    return '' if last is None else last


def _complete_lines(ys):
    return forall_range(0, len(ys), lambda j: is_line(ys[j]) and ys[j].endswith(NL))


def _pending_ok(last):
    return last is None or (last != '' and NL not in last)


def _inv_parts(self, yielded, last_line_wo_ending_new_line, _i):
    return text_spec.line_body_over_concat() and join_of(yielded) + _pending(last_line_wo_ending_new_line) == prefix_join(part_txts(self._parts), _i) \
        and _pending_ok(last_line_wo_ending_new_line) and _complete_lines(yielded)


def _inv_first_line(self, yielded, last_line_wo_ending_new_line, _i, _i0):
    # (the body always breaks: only the first line is taken here)
    return _i == 0 and _inv_parts(self, yielded, last_line_wo_ending_new_line, _i0)


def _inv_other_lines(self, yielded, last_line_wo_ending_new_line, _i, _n, _xs, _i0):
    return text_spec.line_body_over_concat_off() and join_of(yielded) + _pending(last_line_wo_ending_new_line) \
        == prefix_join(part_txts(self._parts), _i0) + prefix_join(_xs, _i) \
        and (_i == 0 or last_line_wo_ending_new_line is None or _i == _n) \
        and _pending_ok(last_line_wo_ending_new_line) and _complete_lines(yielded)


def _inv_last_other_lines(self, yielded, _i, _n, _xs):
    return text_spec.line_body_over_concat_off() and join_of(yielded) == prefix_join(part_txts(self._parts), len(self._parts) - 1) + prefix_join(_xs, _i) \
        and (_i == _n or len(yielded) == 0 or yielded[len(yielded) - 1].endswith(NL)) \
        and forall_range(0, len(yielded), lambda j: is_line(yielded[j])) \
        and forall_range(0, len(yielded) - 1, lambda j: yielded[j].endswith(NL))


_LAST = 'last_line_wo_ending_new_line'
_LOCALS = {'non_last_part': 'local', 'non_last_part_lines': 'local', 'first_line': 'local', 'non_first_line': 'local'}

# The deductive proof of `_lines_iter` (10 obligations, all discharged) takes about 3 minutes, most of it in one
# worker: it is part of the THOROUGH tier only.  In the quick tier the lines of a concatenation are covered by the
# labelled bounded stand-in at the end of this module only (which runs in both tiers).
_LINES_ITER_PROOF = not os.environ.get('C14_NO_LINES_ITER_PROOF')
if _LINES_ITER_PROOF:
    M.contract(_P_CC + '._lines_iter', params=dict(self=CONCAT_CONTENTS), yields=ListOf(Str),
               ensures={'lines == split_nl(txt)': lambda self, yielded: is_split_nl(yielded, txt_of(self))},
               raises_only=())
    M.loop(_P_CC + '._lines_iter', 0, invariant=_inv_parts, modifies={'yielded': 'len', _LAST: Opt(Str), **_LOCALS})
    M.loop(_P_CC + '._lines_iter', 1, invariant=_inv_first_line, modifies={'yielded': 'len', _LAST: Opt(Str), **_LOCALS})
    M.loop(_P_CC + '._lines_iter', 2, invariant=_inv_other_lines, modifies={'yielded': 'len', _LAST: Opt(Str), **_LOCALS})
    M.loop(_P_CC + '._lines_iter', 3,
           invariant=lambda self, yielded, last_line_wo_ending_new_line, _i:
           _i == 0 and _inv_parts(self, yielded, last_line_wo_ending_new_line, len(self._parts) - 1),
           modifies={'yielded': 'len', _LAST: Opt(Str), **_LOCALS})
    M.loop(_P_CC + '._lines_iter', 4, invariant=_inv_last_other_lines, modifies={'yielded': 'len', **_LOCALS})


if _LINES_ITER_PROOF:
    M.contract(_P_CC + '.as_lines', params=dict(self=CONCAT_CONTENTS), inline=True,
               old=lambda self: txt_of(self),
               ensures={'lines == split_nl(txt)': lambda self, yielded: is_split_nl(ctx_lines(yielded), txt_of(self)),
                        **_rereadable(cached_path_ok)},
               raises_only=())
    M.contract(_P_CC + '.as_str', params=dict(self=CONCAT_CONTENTS), inline=True,
               old=lambda self: txt_of(self),
               ensures={'as_str == txt': lambda self, result: result == txt_of(self), **_rereadable(cached_path_ok)},
               raises_only=())


# --- bounded stand-in for the line iterator of a concatenation (labelled `bounded`, never counted as proved): the
# REAL `_ConcatStringSourceContents` (as_lines, as_str, `_lines_iter` a second time, write_to, and as_file for the
# smaller cases) over REAL parts of four kinds, on every list of 2..4 (thorough: ..5) parts whose texts come from
# a small set that has every combination of empty / unterminated / terminated first and last lines, compared with
# split_nl of the concatenated texts.  Until the deductive proof above goes through this is what stands for
# "as_lines / as_str of a concatenation see the text".
@M.bounded('lines of a concatenation of sources')
def _b_concat_lines(ctx):
    import itertools
    T, K = replays_c14.CONCAT_PART_TEXTS, replays_c14.CONCAT_PART_KINDS
    max_parts = 5 if ctx.tier == 'thorough' else 4
    bench = replays_c14.ConcatBench()
    cases, failures = 0, []
    for k in range(2, max_parts + 1):
        # kinds: all parts of one kind (x4), and the kinds in rotation starting at each kind (x4; quick: x1)
        kind_sets = [(kd,) * k for kd in K] \
            + [tuple(K[(i + o) % len(K)] for i in range(k)) for o in range(len(K) if ctx.tier == 'thorough' else 1)]
        for texts in itertools.product(T, repeat=k):
            for kinds in kind_sets:
                cases += 1
                f = bench.failure(list(texts), kinds, with_file=(k <= 3 and kinds[0] == kinds[1] == 'str'))
                if f is not None:
                    failures.append({'input': {'texts': list(texts), 'kinds': list(kinds)}, 'expected': f[1],
                                     'actual': f[2], 'what': f[0],
                                     'replay': 'from contracts import replays_c14\n'
                                               'sys.exit(replays_c14.concat_case(%r, %r))\n' % (list(texts), list(kinds))})
    import shutil
    shutil.rmtree(str(bench.space.d), ignore_errors=True)
    ctx.bounded_result('concat._ConcatStringSourceContents.as_lines / as_str / _lines_iter / write_to / as_file',
                       'every list of 2..%d parts with texts from %r, parts of the kinds %r (uniform and in rotation)'
                       % (max_parts, list(T), list(K)), cases, True, failures,
                       note='compared with split_nl of the concatenated texts; line-wise reading is done twice')


# ------------------------------------------------------------------------------ facts proved in C05 that C14 rests on too
# "One value however it is consumed" also concerns (a) the line-wise reading of a `replace`d text: the re-splitting
# generator `_lines_iterator_from_replacements` must yield exactly the lines of the text that as_str / the file
# give (seeded C14-s4), and (b) the four strategies of `equals`, three of which read a prefix of one side
# (`read_lines`, `_min_num_chars_to_read`): all four must decide the same thing, equality of the two texts
# (seeded C14-s6).  Their contracts live in contracts/C05_text.py and carry C14 as well: the C14 check re-proves
# them on the current tree.  (`_do_compare`, with the known finding, is listed for both properties already.)
_SHARED_WITH_C05 = (
    'replace.impl:_lines_iterator_from_replacements',
    ':read_lines_as_str__w_minimum_num_chars',
    'equality:_min_num_chars_to_read',
    'equality:_ApplierWExtDepsCases._ext_deps__none',
    'equality:_ApplierWExtDepsCases._ext_deps__only_actual',
    'equality:_ApplierWExtDepsCases._ext_deps__only_expected',
    'equality:_ApplierWExtDepsCases._freeze_and_read_expected_header',
    'equality:_ApplierWExtDepsCases.match',
    'equality:_ExtDepsOfBothHandler.match',
)


def _share_with_c05():
    from contracts.common import share_contracts
    share_contracts('C14', 'contracts.C05_text', lambda q: any(q.endswith(s) for s in _SHARED_WITH_C05))


M.after_load = _share_with_c05
