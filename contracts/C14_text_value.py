"""C14 -- a text has one value however it is consumed (DESIGN.md 3/C14).

The interface contract of a text, I_SSC (`SSCI` below): a StringSourceContents `c` has ONE ghost text
`txt` and
  (1) c.as_str == txt
  (2) c.as_lines yields split_nl(txt)  -- the division after '\\n' only
  (3) the file c.as_file decodes (text mode, as every reader in the program opens it) to txt
  (4) c.write_to(out) appends txt to out
  (5) repeated access gives the same (txt is a fixed attribute of the object).
Every concrete class is proved to satisfy it for its own definition of txt (`txt_of`), the caching /
freezing wrappers are proved to preserve txt, for every memory-buffer size >= 1 (a symbolic integer).
The file system, text files, StringIO, filecmp and str.splitlines are ghost state with assumed
contracts (pyvc/textio.py)."""
try:
    import z3
except ImportError:      # replays run under the repository's interpreter, without z3
    z3 = None

from pyvc import textio, texts
from pyvc.api import (Module, Interface, Method, Iface, Inst, Int, Nat, Pos, Bool, Str, Opt, OneOf, Const, Union,
                      ListOf, IterOf, CtxOf, InPlace, FixedList, Any_, Custom, new_opaque, assume_pred)
from pyvc.textio import PathI, TextOutI, TextFileI, StringIOI
from pyvc.values import SStr, SBool, SList, Opaque, to_z3, wrap
from pyvc.models import SIter
from contracts.common import (implies, iff, forall_range, exists_range, prefix_join, join_of, yielded, peek, is_opaque)
from contracts import text_spec
from contracts.text_spec import NL, is_line, is_split_nl, split_nl, lines_of

from exactly_lib.type_val_prims.string_source.contents import StringSourceContents
from exactly_lib.type_val_prims.string_source.string_source import StringSource
from exactly_lib.type_val_prims.string_source.impls import concat as concat_mod
from exactly_lib.type_val_prims.string_source.impls import transformed_string_sources as tss_prims
from exactly_lib.impls.types.string_source import cached_frozen
from exactly_lib.impls.types.string_source.contents import (contents_of_str, contents_of_existing_path,
                                                            contents_via_write_to, contents_with_cached_path, frozen)
from exactly_lib.impls.types.string_source.contents.contents_via_write_to import Writer
from exactly_lib.util.file_utils import spooled_file
from exactly_lib.util.file_utils.dir_file_space import DirFileSpace

M = Module('C14')
text_spec.register_models(M)

P_CONTENTS = 'exactly_lib.type_val_prims.string_source.contents'
P_COS = 'exactly_lib.impls.types.string_source.contents.contents_of_str'
P_COEP = 'exactly_lib.impls.types.string_source.contents.contents_of_existing_path'
P_CVWT = 'exactly_lib.impls.types.string_source.contents.contents_via_write_to'
P_CWCP = 'exactly_lib.impls.types.string_source.contents.contents_with_cached_path'
P_FROZEN = 'exactly_lib.impls.types.string_source.contents.frozen'
P_CACHED = 'exactly_lib.impls.types.string_source.cached_frozen'
P_SPOOLED = 'exactly_lib.util.file_utils.spooled_file'
P_CONCAT = 'exactly_lib.type_val_prims.string_source.impls.concat'
P_TSS = 'exactly_lib.type_val_prims.string_source.impls.transformed_string_sources'


# ============================================================================== observations (spec functions)
# Native definitions are what a replay executes; the proof-level definitions read the ghost file system.

def file_text(path):
    """the text a reader gets: opened in text mode with the default universal-newline translation"""
    with open(str(path)) as f:
        return f.read()


def file_stored(path):
    """the characters the file holds, undecoded w.r.t. line ends"""
    with open(str(path), newline='') as f:
        return f.read()


def written(out):
    """what has been written to an output so far"""
    return out.getvalue()


def decoded(s):
    """universal-newline translation: what reading stored text s in text mode gives"""
    return s.replace('\r\n', '\n').replace('\r', '\n')


def ctx_lines(g):
    """the lines a `with x.as_lines as lines` block sees: g is the (not yet entered) generator of the
    @contextmanager property"""
    if isinstance(g, list):       # a replay has already drained the generator
        return list(g[0])
    return list(next(g))


def _res(interp, v):
    from pyvc.values import SOpt, SChoice
    return interp.resolve(v) if isinstance(v, (SOpt, SChoice)) else v


M.model(file_text, lambda interp, args, kwargs:
        wrap(textio.univ(interp, textio.stored_of(interp, _res(interp, args[0])))))
M.model(decoded, lambda interp, args, kwargs: wrap(textio.univ(interp, _res(interp, args[0]))))
M.model(file_stored, lambda interp, args, kwargs: wrap(textio.stored_of(interp, _res(interp, args[0]))))
M.model(written, lambda interp, args, kwargs: wrap(textio.written_of(interp, _res(interp, args[0]))))


# ============================================================================== I_SSC: the interface of a text

class DirFileSpaceI(Interface):
    """the temporary-file space: new_path gives a path that is not in use (environment assumption)"""
    target_class = DirFileSpace
    methods = {'new_path': Method(model=lambda interp, self, args, kwargs: textio.new_unused_path(interp, 'new_path'))}


class _AsLines:
    """the context manager `c.as_lines` of an abstract text: yields an iterator over split_nl(txt)"""

    def __init__(self, it):
        self.it = it

    def __enter__(self):
        return self.it

    def __exit__(self, *exc):
        return None


def _ssc_as_lines(interp, self):
    txt = interp.reg.opaque_getattr(interp, self, 'txt')
    return _AsLines(SIter(texts.lines_of_text(interp, txt), 0))


def _ssc_as_file(interp, self):
    p = self._pv_attrs.get('__as_file__')
    if p is None:
        p = new_opaque(interp, PathI, self._pv_uid + '.as_file')
        self._pv_attrs['__as_file__'] = p
        txt = interp.reg.opaque_getattr(interp, self, 'txt')
        interp.st.assume(textio.univ(interp, textio.stored_of(interp, p)) == to_z3(txt))
    return p


def append_text(interp, out, s):
    """`s` is written to `out`, in one or several write / writelines calls."""
    if isinstance(out, Opaque):
        return textio.append_to(interp, out, s)
    if isinstance(out, spooled_file.SpooledTextFile):
        return _spooled_receive(interp, out, s)
    from pyvc.path import Unsupported
    raise Unsupported('text written to %r' % (out,))


def _spooled_receive(interp, out, s):
    raise NotImplementedError


def _ssc_write_to(interp, self, args, kwargs):
    append_text(interp, args[0], interp.reg.opaque_getattr(interp, self, 'txt'))


class SSCI(Interface):
    """I_SSC.  Environment of every consumer of a text (C05); every implementing class is proved to
    satisfy it below (clauses as_str / as_lines / as_file / write_to of each class)."""
    target_class = StringSourceContents
    attrs = {'txt': Str, 'tmp_file_space': Iface(DirFileSpaceI)}
    props = {
        'as_str': lambda interp, self: interp.reg.opaque_getattr(interp, self, 'txt'),
        'as_lines': _ssc_as_lines,
        'as_file': _ssc_as_file,
        # "the return value is allowed to vary over time": a fresh boolean at every read
        'may_depend_on_external_resources': lambda interp, self: Bool.make(interp, self._pv_uid + '.ext_deps'),
    }
    methods = {'write_to': Method(model=_ssc_write_to)}


SSC = Iface(SSCI)


def _ss_contents(interp, self, args, kwargs):
    """contents() of an abstract source: some contents object whose text is the text of the source"""
    c = new_opaque(interp, SSCI, self._pv_uid + '.contents()')
    c._pv_attrs['txt'] = interp.reg.opaque_getattr(interp, self, 'txt')
    c._pv_attrs['tmp_file_space'] = interp.reg.opaque_getattr(interp, self, 'tmp_file_space')
    return c


class SSI(Interface):
    """A StringSource with a constant text: contents() always has the text `txt`, before and after
    freeze() (proved of StringSourceWithCachedFrozen and TransformedStringSourceFromLines below;
    sources whose text may vary over time -- a program run twice -- are outside the property)."""
    target_class = StringSource
    attrs = {'txt': Str, 'tmp_file_space': Iface(DirFileSpaceI)}
    methods = {
        'contents': Method(model=_ss_contents),
        'freeze': Method(event='freeze'),
        'structure': Method(returns=Any_),
        'new_structure_builder': Method(returns=Any_),
    }


SS = Iface(SSI)


class WriterI(Interface):
    """contents_via_write_to.Writer with a constant text: write(space, out) appends `txt` to out"""
    target_class = Writer
    attrs = {'txt': Str}
    methods = {'write': Method(model=lambda interp, self, args, kwargs:
                               append_text(interp, args[1], interp.reg.opaque_getattr(interp, self, 'txt')))}


# ============================================================================== txt_of: the text of each class

def txt_of(c):
    if is_opaque(c):
        return c.txt
    if isinstance(c, contents_of_str.ContentsOfStr):
        return c._contents
    if isinstance(c, contents_of_existing_path.StringSourceContentsOfExistingPath):
        return file_text(c._existing_regular_file_path)
    if isinstance(c, frozen._StringSourceContentsOfConstStrAndExistingPath):
        return c._contents_as_str
    if isinstance(c, contents_via_write_to.ContentsViaWriteTo):
        # every reader of this class goes through the file the writer's output is stored in
        return decoded(c._writer.txt)
    raise ValueError('txt_of: unexpected class %r' % (type(c),))


def cached_path_ok(c):
    """class invariant of StringSourceContentsWithCachedPath: a cached path holds the text"""
    return c._as_file_path is None or file_text(c._as_file_path) == txt_of(c)


# ============================================================================== ContentsOfStr

CONTENTS_OF_STR = Inst(contents_of_str.ContentsOfStr, _invariant=cached_path_ok,
                       _contents=Str, _file_name=Opt(Str), _tmp_file_space=Iface(DirFileSpaceI),
                       _as_file_path=Opt(Iface(PathI)))

M.contract(P_COS + ':ContentsOfStr.as_str', params=dict(self=CONTENTS_OF_STR), inline=True,
           ensures={'as_str == txt': lambda self, result: result == txt_of(self)}, raises_only=())

M.contract(P_COS + ':ContentsOfStr.as_lines', params=dict(self=CONTENTS_OF_STR), inline=True,
           ensures={'lines == split_nl(txt)': lambda self, result: is_split_nl(ctx_lines(result), txt_of(self))},
           raises_only=())

M.contract(P_COS + ':ContentsOfStr.write_to', params=dict(self=CONTENTS_OF_STR, output=Iface(TextOutI)), inline=True,
           old=lambda output: written(output),
           ensures={'appends txt': lambda self, output, old: written(output) == old + txt_of(self)},
           raises_only=())


# ============================================================================== StringSourceContentsOfExistingPath
# txt := the decoded file.  Every access path reads the file in text mode.

CONTENTS_OF_PATH = Inst(contents_of_existing_path.StringSourceContentsOfExistingPath,
                        _existing_regular_file_path=Iface(PathI), _tmp_file_space=Iface(DirFileSpaceI))

M.contract(P_COEP + ':StringSourceContentsOfExistingPath.as_str', params=dict(self=CONTENTS_OF_PATH), inline=True,
           ensures={'as_str == txt': lambda self, result: result == txt_of(self)}, raises_only=())

M.contract(P_COEP + ':StringSourceContentsOfExistingPath.as_lines', params=dict(self=CONTENTS_OF_PATH), inline=True,
           ensures={'lines == split_nl(txt)': lambda self, result: is_split_nl(ctx_lines(result), txt_of(self))},
           raises_only=())

M.contract(P_COEP + ':StringSourceContentsOfExistingPath.as_file', params=dict(self=CONTENTS_OF_PATH), inline=True,
           ensures={'file decodes to txt': lambda self, result: file_text(result) == txt_of(self)}, raises_only=())

M.contract(P_COEP + ':StringSourceContentsOfExistingPath.write_to',
           params=dict(self=CONTENTS_OF_PATH, output=Iface(TextOutI)), inline=True,
           old=lambda output: written(output),
           ensures={'appends txt': lambda self, output, old: written(output) == old + txt_of(self)},
           raises_only=())


# ============================================================================== _StringSourceContentsOfConstStrAndExistingPath
# (the frozen form of a text that was spilled to disk but fits in the buffer): txt := the string;
# class invariant, established by frozen__from_write: the file decodes to the string.

def _const_str_and_path_ok(c):
    return file_text(c._contents_as_existing_file) == c._contents_as_str \
        and (c._contents_as_lines is None or is_split_nl(c._contents_as_lines, c._contents_as_str))


CONST_STR_AND_PATH = Inst(frozen._StringSourceContentsOfConstStrAndExistingPath, _invariant=_const_str_and_path_ok,
                          _contents_as_str=Str, _contents_as_lines=Opt(ListOf(Str)),
                          _contents_as_existing_file=Iface(PathI), _tmp_file_space=Iface(DirFileSpaceI))

_P_CSP = P_FROZEN + ':_StringSourceContentsOfConstStrAndExistingPath'

M.contract(_P_CSP + '.as_str', params=dict(self=CONST_STR_AND_PATH), inline=True,
           ensures={'as_str == txt': lambda self, result: result == txt_of(self)}, raises_only=())

M.contract(_P_CSP + '.as_lines', params=dict(self=CONST_STR_AND_PATH), inline=True,
           ensures={'lines == split_nl(txt)': lambda self, result: is_split_nl(ctx_lines(result), txt_of(self))},
           raises_only=())

M.contract(_P_CSP + '.as_file', params=dict(self=CONST_STR_AND_PATH), inline=True,
           ensures={'file decodes to txt': lambda self, result: file_text(result) == txt_of(self)}, raises_only=())

M.contract(_P_CSP + '.write_to', params=dict(self=CONST_STR_AND_PATH, output=Iface(TextOutI)), inline=True,
           old=lambda output: written(output),
           ensures={'appends txt': lambda self, output, old: written(output) == old + txt_of(self)},
           raises_only=())


# ============================================================================== the defaults of the base classes
# as_str / write_to in terms of the (abstract) as_lines: proved for an arbitrary object whose as_lines
# yields split_nl(txt).

for _q in (P_CONTENTS + ':StringSourceContents', P_CWCP + ':ContentsWithCachedPathFromAsLinesBase'):
    M.contract(_q + '.as_str', params=dict(self=SSC), inline=True,
               ensures={'as_str == txt': lambda self, result: result == self.txt}, raises_only=())
    M.contract(_q + '.write_to', params=dict(self=SSC, output=Iface(TextOutI)), inline=True,
               old=lambda output: written(output),
               ensures={'appends txt': lambda self, output, old: written(output) == old + self.txt},
               raises_only=())


# ============================================================================== ContentsViaWriteTo
# txt := the writer's output as decoded from the file it is stored in (as_str / as_lines / as_file all
# read that file).  write_to before the file exists hands the writer's raw output on instead.

CONTENTS_VIA_WRITE_TO = Inst(contents_via_write_to.ContentsViaWriteTo, _invariant=cached_path_ok,
                             _tmp_file_space=Iface(DirFileSpaceI), _writer=Iface(WriterI), _file_name=Opt(Str),
                             _as_file_path=Opt(Iface(PathI)))

M.contract(P_CVWT + ':ContentsViaWriteTo.as_str', params=dict(self=CONTENTS_VIA_WRITE_TO), inline=True,
           ensures={'as_str == txt': lambda self, result: result == txt_of(self)}, raises_only=())

M.contract(P_CVWT + ':ContentsViaWriteTo.as_lines', params=dict(self=CONTENTS_VIA_WRITE_TO), inline=True,
           ensures={'lines == split_nl(txt)': lambda self, result: is_split_nl(ctx_lines(result), txt_of(self))},
           raises_only=())

M.contract(P_CVWT + ':ContentsViaWriteTo.write_to',
           params=dict(self=CONTENTS_VIA_WRITE_TO, output=Iface(TextOutI)), inline=True,
           old=lambda output: written(output),
           ensures={'appends txt': lambda self, output, old: written(output) == old + txt_of(self)},
           raises_only=())

# ============================================================================== the cached file (as_file / _to_file)

WITH_CACHED_PATH_FROM_WRITE_TO = Union(CONTENTS_OF_STR, CONTENTS_VIA_WRITE_TO)

M.contract(P_CWCP + ':ContentsWithCachedPathFromWriteToBase._to_file',
           params=dict(self=WITH_CACHED_PATH_FROM_WRITE_TO), inline=True,
           ensures={'file decodes to txt': lambda self, result: file_text(result) == txt_of(self)},
           raises_only=())

M.contract(P_CWCP + ':StringSourceContentsWithCachedPath.as_file',
           params=dict(self=WITH_CACHED_PATH_FROM_WRITE_TO), inline=True,
           ensures={'file decodes to txt': lambda self, result: file_text(result) == txt_of(self),
                    'the path is cached': lambda self, result: self._as_file_path is result},
           raises_only=())
