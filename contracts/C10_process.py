"""C10 -- the action to check gets the denoted argv/stdin/cwd; its outcome is captured.
C19 shares the process-execution core of this module (contracts with props C10+C19).
See DESIGN.md "### C10" / "### C19" and notes/C10.md."""
import subprocess

from pyvc.api import (Module, Interface, Method, Iface, Inst, Int, Nat, Bool, Str, Opt, OneOf, Const, Union,
                      ListOf, FixedList, Any_, EnumOf, Custom, new_opaque, assume_pred)
from pyvc.interp import PyRaise
from contracts.common import implies, iff

from exactly_lib.impls.program_execution import executable_factories
from exactly_lib.impls.program_execution.impl import cmd_exe_from_proc_exe
from exactly_lib.test_case.hard_error import HardErrorException
from exactly_lib.type_val_prims.program import commands
from exactly_lib.type_val_prims.program.command import Command
from exactly_lib.util.file_utils.std import StdFiles, StdOutputFiles
from exactly_lib.util.process_execution import process_executor
from exactly_lib.util.process_execution.execution_elements import Executable, ProcessExecutionSettings
from exactly_lib.util.process_execution.process_executor import ProcessExecutor, ProcessExecutionException

M = Module('C10')
BOTH = ('C10', 'C19')

P_PE = 'exactly_lib.util.process_execution.process_executor'
P_EE = 'exactly_lib.util.process_execution.execution_elements'
P_CX = 'exactly_lib.impls.program_execution.impl.cmd_exe_from_proc_exe'
P_EF = 'exactly_lib.impls.program_execution.executable_factories'
P_CMDS = 'exactly_lib.type_val_prims.program.commands'


# ------------------------------------------------------------------------------ the OS boundary (assumed)
# subprocess.call is the only way a test-case process is started (C19 `choke point`).  Its assumed
# contract: it records ONE ghost event carrying every argument it was given, and then either returns
# an exit code (any integer) or raises one of the three exceptions CPython documents for it.

CALL = 'subprocess.call'
CALL_EXCEPTIONS = (ValueError, OSError, subprocess.TimeoutExpired)


def _subprocess_call(interp, args, kwargs):
    st = interp.st
    st.emit(CALL, tuple(args), dict(kwargs))
    k = st.choose(4)
    if k == 0:
        code = Int.make(interp, 'exit_code')
        st.emit(CALL + ':returned', code)
        return code
    exc = (ValueError('subprocess: invalid argument'), OSError('subprocess: cannot execute'),
           subprocess.TimeoutExpired('cmd', 1))[k - 1]
    st.emit(CALL + ':raised', exc)
    raise PyRaise(exc)


M.model(subprocess.call, _subprocess_call)
M.trust('subprocess.call(args, stdin=, stdout=, stderr=, env=, timeout=, shell=): starts ONE child process with '
        'exactly the given argv (shell=True: the one string is given to `/bin/sh -c`), the given files as its '
        'std streams, the given environment, and the *current working directory of this process* (no cwd= is '
        'passed); returns the exit code of the child or raises ValueError / OSError / subprocess.TimeoutExpired '
        '(CPython + OS; nothing in the repository can establish this)')


def calls(trace):
    return [e for e in trace if e[0] == CALL]


def the_call(trace):
    """the one process start of this path: (positional args, keyword args)"""
    cs = calls(trace)
    if len(cs) != 1:
        raise ValueError('not exactly one subprocess.call: %d' % len(cs))
    return cs[0][1], cs[0][2]


def returned(trace):
    """the exit code subprocess.call returned (the last event of a normally returning start)"""
    rs = [e for e in trace if e[0] == CALL + ':returned']
    if len(rs) != 1:
        raise ValueError('subprocess.call did not return exactly once')
    return rs[0][1]


def raised(trace):
    rs = [e for e in trace if e[0] == CALL + ':raised']
    if len(rs) != 1:
        raise ValueError('subprocess.call did not raise exactly once')
    return rs[0][1]


def timeout_of(settings):
    """ProcessExecutionSettings is the pair (timeout_in_seconds, environ)"""
    return settings[0]


def environ_of(settings):
    return settings[1]


CALL_KEYWORDS = ('stdin', 'stdout', 'stderr', 'env', 'timeout', 'shell')


def started_with(trace, argv, is_shell, settings, files):
    """Exactly one OS process was started; it got `argv` (the object itself), the three files, the
    environment and the timeout of `settings`, and the shell flag; NO other keyword (in particular no
    `cwd=`: the child inherits the current directory of the process)."""
    a, kw = the_call(trace)
    return len(a) == 1 and a[0] is argv \
        and sorted(kw.keys()) == sorted(CALL_KEYWORDS) \
        and kw['stdin'] is files.stdin \
        and kw['stdout'] is files.output.out \
        and kw['stderr'] is files.output.err \
        and kw['env'] == environ_of(settings) \
        and kw['timeout'] == timeout_of(settings) \
        and kw['shell'] == is_shell


# ------------------------------------------------------------------------------ shapes

ARGV = Union(Str, ListOf(Str))
EXECUTABLE = Inst(Executable, _is_shell=Bool, _arg_list_or_str=Any_)
SETTINGS = Inst(ProcessExecutionSettings, _tuple=[Opt(Int), Opt(Any_)])
FILES = Inst(StdFiles, _tuple=[Any_, Inst(StdOutputFiles, _tuple=[Any_, Any_])])

# ------------------------------------------------------------------------------ ProcessExecutor.execute

M.contract(P_PE + ':ProcessExecutor.execute', props=BOTH, inline=True,
           params=dict(self=Inst(ProcessExecutor), executable=EXECUTABLE, settings=SETTINGS, files=FILES),
           returns=Int,
           ensures={
               'one-process: given argv, files, env, TIMEOUT of the settings, shell flag; no cwd':
                   lambda executable, settings, files, trace:
                   started_with(trace, executable.arg_list_or_str, executable.is_shell, settings, files),
               'returns-the-exit-code-of-the-process': lambda result, trace: result == returned(trace),
           },
           raises={ProcessExecutionException: {
               'ensures': lambda exc, executable, settings, files, trace:
               started_with(trace, executable.arg_list_or_str, executable.is_shell, settings, files)
               and exc.cause is raised(trace) and isinstance(exc.cause, CALL_EXCEPTIONS)}},
           raises_only=())

for _acc, _i in (('timeout_in_seconds', 0), ('environ', 1)):
    M.contract('%s:ProcessExecutionSettings.%s' % (P_EE, _acc), props=BOTH, inline=True,
               params=dict(self=SETTINGS), ghosts=dict(i=Const(_i)),
               ensures={'is-the-stored-component': lambda self, i, result: result == self[i]},
               raises_only=())

M.contract(P_EE + ':ProcessExecutionSettings.__new__', props=BOTH, inline=True,
           params=dict(cls=Const(ProcessExecutionSettings), timeout_in_seconds=Opt(Int), environ=Opt(Any_)),
           ensures={'pair-of-timeout-and-environ': lambda timeout_in_seconds, environ, result:
           timeout_of(result) == timeout_in_seconds and environ_of(result) == environ
           and type(result) is ProcessExecutionSettings},
           raises_only=())

# ------------------------------------------------------------------------------ Command -> Executable
# The denotation of a command (property statement; DESIGN C10 `translation`):
#   shell            => ONE string  ' '.join([command line] + arguments), shell=True   (passed verbatim)
#   executable file  => the list    [str(file)] + arguments,              shell=False
#   system program   => the list    [program]   + arguments,              shell=False
# Argument elements are only copied: for an arbitrary fixed index j the j-th argument is the j-th
# element of the command's argument list, whatever it contains (empty, spaces, quotes ...).

import pathlib
from exactly_lib.type_val_deps.types.path.path_ddv import DescribedPath


class PathI(Interface):
    """a pathlib.Path: only its str() is used"""
    target_class = pathlib.PurePath
    methods = {'__str__': Method(returns=Str, pure=True)}


class DescribedPathI(Interface):
    target_class = DescribedPath
    attrs = {'primitive': Iface(PathI), 'describer': Any_}


DRIVER_SHELL = Inst(commands.CommandDriverForShell, _command_line=Str)
DRIVER_FILE = Inst(commands.CommandDriverForExecutableFile, _executable_file=Iface(DescribedPathI))
DRIVER_SYSTEM = Inst(commands.CommandDriverForSystemProgram, _program=Str)
DRIVER = Union(DRIVER_SHELL, DRIVER_FILE, DRIVER_SYSTEM)
ARGUMENTS = ListOf(Str)
COMMAND = Inst(Command, _driver=DRIVER, _arguments=ARGUMENTS)


def is_shell_command(command):
    return isinstance(command.driver, commands.CommandDriverForShell)


def program_of(driver):
    """first element of the argument vector of a non-shell command"""
    if isinstance(driver, commands.CommandDriverForExecutableFile):
        return str(driver._executable_file.primitive)
    if isinstance(driver, commands.CommandDriverForSystemProgram):
        return driver._program
    raise ValueError('not a driver with argument list')


def denotes(driver, arguments, is_shell, argv, j):
    """`argv`/`is_shell` is the denotation of the command (driver, arguments); j: arbitrary index"""
    if isinstance(driver, commands.CommandDriverForShell):
        return is_shell is True and argv == ' '.join([driver._command_line] + list(arguments))
    return is_shell is False \
        and len(argv) == 1 + len(arguments) \
        and argv[0] == program_of(driver) \
        and ((not (0 <= j < len(arguments))) or argv[1 + j] == arguments[j])


M.contract(P_CMDS + ':CommandDriverForShell.shell_command_line_with_args', inline=True,
           params=dict(self=DRIVER_SHELL, arguments=ARGUMENTS), returns=Str,
           ensures={
               'one-string: command line and arguments separated by single spaces': lambda self, arguments, result:
               result == ' '.join([self._command_line] + list(arguments)),
               'verbatim: without arguments it is the command line itself': lambda self, arguments, result:
               (not len(arguments) == 0) or result == self._command_line,
               'verbatim: the command line is a prefix': lambda self, result: result.startswith(self._command_line),
           }, raises_only=())

TRANSLATOR = Inst(executable_factories._CommandTranslator, arguments=ARGUMENTS)

for _m, _d in (('visit_shell', DRIVER_SHELL), ('visit_executable_file', DRIVER_FILE),
               ('visit_system_program', DRIVER_SYSTEM)):
    M.contract('%s:_CommandTranslator.%s' % (P_EF, _m), inline=True,
               params=dict(self=TRANSLATOR, driver=_d), ghosts=dict(j=Int),
               ensures={'denoted-argv': lambda self, driver, result, j:
               denotes(driver, self.arguments, result._is_shell, result._arg_list_or_str, j)},
               raises_only=())

M.contract(P_CMDS + ':CommandDriverVisitor.visit', inline=True,
           # default branch for an unknown driver class: dead for the closed set of the three driver classes
           cover=('raise TypeError',),
           params=dict(self=TRANSLATOR, value=DRIVER), ghosts=dict(j=Int),
           ensures={'dispatches-on-the-driver: denoted-argv': lambda self, value, result, j:
           denotes(value, self.arguments, result._is_shell, result._arg_list_or_str, j)},
           raises_only=())

FACTORY = OneOf(*executable_factories._FACTORY_FOR_OPERATING_SYSTEM_MODULE_NAME.values())

M.contract(P_EF + ':ExecutableFactoryBase.make', inline=True,
           params=dict(self=FACTORY, command=COMMAND), ghosts=dict(j=Int),
           ensures={'denoted-argv': lambda command, result, j:
           denotes(command._driver, command._arguments, result._is_shell, result._arg_list_or_str, j)},
           raises_only=())

for _acc in ('arg_list_or_str', 'is_shell'):
    M.contract('%s:Executable.%s' % (P_EE, _acc), inline=True,
               params=dict(self=EXECUTABLE), ghosts=dict(name=Const('_' + _acc)),
               ensures={'is-the-stored-field': lambda self, name, result: result is getattr(self, name)},
               raises_only=())

# ------------------------------------------------------------------------------ CommandExecutorFromProcessExecutor

COMMAND_EXECUTOR = Inst(cmd_exe_from_proc_exe.CommandExecutorFromProcessExecutor,
                        _process_executor=Inst(ProcessExecutor), _translator=FACTORY)


def started_command(trace, command, settings, files, j):
    """Exactly one OS process was started: with the denoted argv of `command`, the given files,
    the environment and TIMEOUT of the given settings (unchanged), and no cwd."""
    a, kw = the_call(trace)
    return len(a) == 1 and denotes(command._driver, command._arguments, kw['shell'], a[0], j) \
        and sorted(kw.keys()) == sorted(CALL_KEYWORDS) \
        and kw['stdin'] is files.stdin and kw['stdout'] is files.output.out and kw['stderr'] is files.output.err \
        and kw['env'] == environ_of(settings) and kw['timeout'] == timeout_of(settings)


M.contract(P_CX + ':CommandExecutorFromProcessExecutor.execute', props=BOTH,
           params=dict(self=COMMAND_EXECUTOR, command=COMMAND, settings=SETTINGS, files=FILES),
           ghosts=dict(j=Int), returns=Int,
           ensures={
               'one-process: denoted argv, given files, env and TIMEOUT of the settings, no cwd':
                   lambda command, settings, files, trace, j: started_command(trace, command, settings, files, j),
               'returns-the-exit-code-of-the-process': lambda result, trace: result == returned(trace),
           },
           raises={HardErrorException: {
               'ensures': lambda exc, command, settings, files, trace, j:
               started_command(trace, command, settings, files, j)
               and isinstance(raised(trace), CALL_EXCEPTIONS)}},
           raises_only=())


@M.check('construction')
def _construction(ctx):
    """the command executor of the OS services of a run is the one verified above"""
    from exactly_lib.impls.os_services import os_services_access
    for os_name in sorted(executable_factories._FACTORY_FOR_OPERATING_SYSTEM_MODULE_NAME):
        ce = os_services_access.new_for_os(os_name).command_executor
        ok = type(ce) is cmd_exe_from_proc_exe.CommandExecutorFromProcessExecutor \
            and type(ce._process_executor) is ProcessExecutor \
            and ce._translator is executable_factories._FACTORY_FOR_OPERATING_SYSTEM_MODULE_NAME[os_name] \
            and type(ce._translator).make is executable_factories.ExecutableFactoryBase.make
        ctx.obligation('os_services(%s).command_executor = CommandExecutorFromProcessExecutor(ProcessExecutor(), '
                       'ExecutableFactoryBase)' % os_name, ok, 'enumeration', detail={'type': repr(type(ce))})

# ------------------------------------------------------------------------------ shared environment interfaces
# (used by the plumbing contracts of C10 and C19)

from pyvc.values import OpaqueVal
from exactly_lib.test_case.command_executor import CommandExecutor
from exactly_lib.test_case.os_services import OsServices

EXECUTE = 'execute'


def _mk_hard_error(interp, o):
    return HardErrorException(OpaqueVal(interp.st.fresh_name('hard-error-message')))


class CommandExecutorI(Interface):
    """The CommandExecutor of the OS services, as an opaque object: each call of `execute` is one ghost
    event ('execute', executor, (command, settings, files)); it returns any exit code or raises
    HardErrorException (which is what CommandExecutorFromProcessExecutor.execute -- verified above, and the
    executor of every run by `construction` -- does when the process cannot be started or times out)."""
    target_class = CommandExecutor
    methods = {'execute': Method(returns=Int, event=EXECUTE, params=['command', 'settings', 'files'],
                                 may_raise=(_mk_hard_error,))}


class OsServicesI(Interface):
    target_class = OsServices
    attrs = {'command_executor': Iface(CommandExecutorI)}


def executions(trace):
    """(executor, command, settings, files) of every process start requested on this path, in order"""
    return [(e[1], e[2][0], e[2][1], e[2][2]) for e in trace if e[0] == EXECUTE]


def execution_results(trace):
    return [e[2] for e in trace if e[0] == EXECUTE + ':returned']


class FileI(Interface):
    """an open file object"""
    methods = {'write': Method(event='file.write'), 'read': Method(returns=Str), 'seek': Method(),
               'flush': Method(), 'close': Method()}


class FileCtxI(Interface):
    """`path.open(...)`: a context manager giving the open file; does not swallow exceptions"""
    methods = {'__enter__': Method(returns=Iface(FileI)), '__exit__': Method(returns=Const(None))}


class FsPathI(Interface):
    """a pathlib.Path in the file system (existence etc. is outside these properties)"""
    target_class = pathlib.Path
    methods = {'open': Method(returns=Iface(FileCtxI), event='path.open'),
               '__truediv__': Method(returns=Iface(lambda: FsPathI), pure=True),
               '__str__': Method(returns=Str, pure=True),
               'mkdir': Method()}


class DirFileSpaceI(Interface):
    methods = {'new_path': Method(returns=Iface(FsPathI)),
               'new_path_as_existing_dir': Method(returns=Iface(FsPathI))}


class ContentsI(Interface):
    """StringSourceContents: only its file is used by the sites (what the text IS: C14)"""
    attrs = {'as_file': Iface(FsPathI), 'tmp_file_space': Iface(DirFileSpaceI)}
    methods = {'write_to': Method(event='contents.write_to')}


class StringSourceI(Interface):
    """a StringSource primitive.  Ghost: `ident` (which text source it is) and, for a concatenation made by
    string_source.impls.concat.string_source, `g_parts`: the sequence of parts whose texts it concatenates."""
    attrs = {'ident': Int, 'g_parts': Any_}
    methods = {'contents': Method(returns=Iface(ContentsI), pure=True), 'structure': Method(returns=Any_),
               'new_structure_builder': Method(returns=Any_)}


STRING_SOURCE = Iface(StringSourceI)


class StdinCtxI(Interface):
    """a ContextManager[ProcessExecutionFile] (made by as_stdin / file_ctx_managers): gives the file to use
    as a std stream of a process; does not swallow exceptions"""
    methods = {'__enter__': Method(returns=Any_), '__exit__': Method(returns=Const(None))}


# ============================================================================== accumulation through program symbols
# DESIGN C10 `accumulation`.  Elements (stdin string sources, argument list elements, transformers, validators)
# are opaque objects that the code only copies; a ghost identity token `ident` stands for "which object":
# `same(x, y)` is object identity (nothing on the path can make an element, so a result element with the ident
# of an input element IS that element -- the inputs range over all assignments of idents, injective ones included).

from pyvc.values import SList
from pyvc import seqs as _seqs
from exactly_lib.type_val_deps.types.program.sdv.accumulated_components import AccumulatedComponents
from exactly_lib.type_val_deps.types.program.sdv.arguments import ArgumentsSdv
from exactly_lib.type_val_deps.types.program.sdv.command import CommandSdv
from exactly_lib.type_val_deps.types.list_.list_sdv import ListSdv
from exactly_lib.type_val_deps.types.list_ import list_sdvs
from exactly_lib.impls.types.program.sdvs.command_program_sdv import ProgramSdvForCommand
from exactly_lib.impls.types.program.sdvs.program_symbol_sdv import ProgramSdvForSymbolReference
from exactly_lib.impls.types.program.sdvs import program_symbol_sdv
from exactly_lib.type_val_deps.types.program.sdv.program import ProgramSdv
from exactly_lib.type_val_deps.types.program.ddv.program import ProgramDdv

P_ACC = 'exactly_lib.type_val_deps.types.program.sdv.accumulated_components'
P_ARGS = 'exactly_lib.type_val_deps.types.program.sdv.arguments'
P_LIST_SDVS = 'exactly_lib.type_val_deps.types.list_.list_sdvs'


class PrimElemI(Interface):
    """the primitive (StringSource, StringTransformer ...) of an element: keeps the identity token"""
    attrs = {'ident': Int, 'g_parts': Any_}
    methods = {'contents': Method(returns=Any_), 'structure': Method(returns=Any_)}


class AdvElemI(Interface):
    attrs = {'ident': Int}
    methods = {'primitive': Method(returns=Iface(PrimElemI),
                                   ensures=lambda self, environment, result: result.ident == self.ident)}


class ResolvedValidatorI(Interface):
    methods = {'validate_pre_sds_if_applicable': Method(returns=Opt(Any_)),
               'validate_post_sds_if_applicable': Method(returns=Opt(Any_))}


class ResolvedI(Interface):
    """what an element resolves to (a ddv): keeps the identity token of the element it came from"""
    attrs = {'ident': Int, 'validator': Iface(ResolvedValidatorI)}
    methods = {'value_of_any_dependency': Method(returns=Iface(AdvElemI),
                                                 ensures=lambda self, tcds, result: result.ident == self.ident)}


class ElementI(Interface):
    """an element of an accumulated list (StringSourceSdv, ElementSdv, StringTransformerSdv, validator resolver)"""
    attrs = {'ident': Int, 'references': Any_}
    methods = {'resolve': Method(returns=Iface(ResolvedI), ensures=lambda self, symbols, result: result.ident == self.ident),
               # validator resolvers are callables: vr(symbols)
               '__call__': Method(returns=Iface(ResolvedI), ensures=lambda self, symbols, result: result.ident == self.ident)}


ELEMENTS = ListOf(Iface(ElementI))

# Extension L8: an element of an ARGUMENT list is an `ElementSdv` of a ListSdv -- it resolves to a LIST of strings
# (one string; the items of a referenced list spliced in: C08).  Its interface is the one of the proved contract of
# `ListSdv.resolve` (contracts/C08b_list_flatmap.py) plus the identity token.
from contracts.common import is_flat_concat
from contracts.C08b_list_flatmap import (ElementSdvI as _ListElementI, ItemI as _ListItemI, TableI as SymbolsI,
                                         resolved_piece, M as _M_C08b)


class ArgElementI(ElementI, _ListElementI):
    attrs = {'ident': Int, 'references': Any_}
    methods = {'resolve': Method(returns=ListOf(Iface(_ListItemI)), pure=True)}


ARG_ELEMENTS = ListOf(Iface(ArgElementI))
M.assume('ElementSdv.resolve(symbols) of an argument-list element is a function of the element and the symbol table '
         '(interface ArgElementI / C08b ElementSdvI; what the two real element classes give: C08)')


def same(x, y):
    return x.ident == y.ident


def is_concat(zs, xs, ys, j):
    """zs == xs ++ ys  (for the arbitrary fixed index j: the j-th of xs is the j-th of zs, the j-th of ys is the
    (len(xs)+j)-th of zs; lengths add)"""
    return len(zs) == len(xs) + len(ys) \
        and ((not (0 <= j < len(xs))) or same(zs[j], xs[j])) \
        and ((not (0 <= j < len(ys))) or same(zs[len(xs) + j], ys[j]))


def is_same_seq(zs, xs, j):
    return len(zs) == len(xs) and ((not (0 <= j < len(xs))) or same(zs[j], xs[j]))


def is_empty_seq(zs):
    return len(zs) == 0


LIST_SDV = Inst(ListSdv, _elements=ARG_ELEMENTS)
ARGUMENTS_SDV = Inst(ArgumentsSdv, _arguments=LIST_SDV, _validators=ELEMENTS)
ACCUMULATED = Inst(AccumulatedComponents, stdin=ELEMENTS, arguments=ARGUMENTS_SDV, transformations=ELEMENTS)


def arg_elements(arguments_sdv):
    return arguments_sdv._arguments._elements


def acc_is_concat(r, a, b, j):
    """r = a (+) b : stdin, arguments (and their validators) and transformations of b appended to those of a"""
    return type(r) is AccumulatedComponents \
        and is_concat(r.stdin, a.stdin, b.stdin, j) \
        and is_concat(arg_elements(r.arguments), arg_elements(a.arguments), arg_elements(b.arguments), j) \
        and is_concat(r.arguments._validators, a.arguments._validators, b.arguments._validators, j) \
        and is_concat(r.transformations, a.transformations, b.transformations, j)


M.contract(P_LIST_SDVS + ':concat', inline=True,
           params=dict(lists=FixedList(LIST_SDV, LIST_SDV)), ghosts=dict(j=Int),
           ensures={'elements of the first list, then those of the second': lambda lists, result, j:
           type(result) is ListSdv and is_concat(result._elements, lists[0]._elements, lists[1]._elements, j)},
           raises_only=())

M.contract(P_ARGS + ':ArgumentsSdv.new_accumulated', inline=True,
           params=dict(self=ARGUMENTS_SDV, arguments_sdv=ARGUMENTS_SDV), ghosts=dict(j=Int),
           ensures={'own arguments (and validators) first, then the additional ones': lambda self, arguments_sdv, result, j:
           type(result) is ArgumentsSdv
           and is_concat(arg_elements(result), arg_elements(self), arg_elements(arguments_sdv), j)
           and is_concat(result._validators, self._validators, arguments_sdv._validators, j)},
           raises_only=())

M.contract(P_ARGS + ':ArgumentsSdv.empty', inline=True, params=dict(),
           ensures={'no arguments': lambda result: is_empty_seq(arg_elements(result)) and is_empty_seq(result._validators)},
           raises_only=())

M.contract(P_ACC + ':AccumulatedComponents.new_accumulated', inline=True,
           params=dict(self=ACCUMULATED, additional=ACCUMULATED), ghosts=dict(j=Int),
           ensures={'append order: own stdin / arguments / transformations first, then the additional ones':
                    lambda self, additional, result, j: acc_is_concat(result, self, additional, j)},
           raises_only=())

M.contract(P_ACC + ':AccumulatedComponents.empty', inline=True, params=dict(),
           ensures={'nothing': lambda result: is_empty_seq(result.stdin) and is_empty_seq(arg_elements(result.arguments))
                                              and is_empty_seq(result.transformations)}, raises_only=())

M.contract(P_ACC + ':AccumulatedComponents.of_arguments', inline=True, params=dict(arguments=ARGUMENTS_SDV),
           ensures={'only the arguments': lambda arguments, result:
           result.arguments is arguments and is_empty_seq(result.stdin) and is_empty_seq(result.transformations)},
           raises_only=())

M.contract(P_ACC + ':AccumulatedComponents.of_stdin', inline=True, params=dict(stdin=ELEMENTS),
           ensures={'only the stdin': lambda stdin, result:
           result.stdin is stdin and is_empty_seq(arg_elements(result.arguments))
           and is_empty_seq(result.transformations)}, raises_only=())

M.contract(P_ACC + ':AccumulatedComponents.of_transformations', inline=True, params=dict(transformations=ELEMENTS),
           ensures={'only the transformations': lambda transformations, result:
           result.transformations is transformations and is_empty_seq(arg_elements(result.arguments))
           and is_empty_seq(result.stdin)}, raises_only=())

M.contract(P_ACC + ':AccumulatedComponents.of_transformation', inline=True, params=dict(transformation=Iface(ElementI)),
           ensures={'only the one transformation': lambda transformation, result:
           len(result.transformations) == 1 and result.transformations[0] is transformation
           and is_empty_seq(arg_elements(result.arguments)) and is_empty_seq(result.stdin)}, raises_only=())


def is_resolution_of(rs, xs, j):
    """rs = [x.resolve(symbols) for x in xs]: same length, the j-th is the resolution of the j-th"""
    return len(rs) == len(xs) and ((not (0 <= j < len(xs))) or rs[j].ident == xs[j].ident)


for _m, _field in (('resolve_stdin', 'stdin'), ('resolve_transformations', 'transformations')):
    M.contract('%s:AccumulatedComponents.%s' % (P_ACC, _m), inline=True,
               params=dict(self=ACCUMULATED, symbols=Any_), ghosts=dict(j=Int, field=Const(_field)),
               ensures={'element-wise, in order': lambda self, field, result, j:
               is_resolution_of(result, getattr(self, field), j)},
               raises_only=())


# ------------------------------------------------------------------------------ program SDVs: the induction over symbol chains
# Denotation (at SDV level) of a program under a symbol table:  g(p) = (driver, argument elements, stdin,
# transformations), each list in DEFINITION ORDER.
#   ProgramSdvForCommand(command, acc)       : g = (command.driver, command.arguments ++ acc.arguments, acc.stdin, acc.transformations)
#   ProgramSdvForSymbolReference(name, acc)  : g = g(symbols[name]) (+) acc            -- the referenced program FIRST
# Proved of both classes:  (a) p.new_accumulated(add) denotes g(p) (+) add;   (b) p.resolve(symbols) is the
# element-wise, in-order resolution of g(p).  For the referenced program of a symbol reference (a) and (b) are the
# induction hypothesis (interface AnyProgramSdvI); the induction is on the depth of the chain of symbol
# definitions, which is well founded because a symbol is defined before it is used (C08).

from exactly_lib.type_val_deps.types.program.ddv.command import CommandDdv
from exactly_lib.type_val_deps.types.program.ddv.argument import ArgumentsDdv
from exactly_lib.type_val_deps.types.list_.list_ddv import ListDdv
from exactly_lib.type_val_deps.sym_ref import symbol_lookup
from pyvc import models as _models
from contracts.common import is_opaque


class DriverDdvI(Interface):
    attrs = {'ident': Int, 'validators': ListOf(Any_)}


class DriverSdvI(Interface):
    attrs = {'ident': Int, 'references': Any_}
    methods = {'resolve': Method(returns=Iface(DriverDdvI), ensures=lambda self, symbols, result: result.ident == self.ident)}


# Extension L8: `ListSdv.resolve` is used through its PROVED contract (contracts/C08b_list_flatmap.py, shared into C10:
# the check of C10 re-proves it): the result is a real ListDdv whose `_string_elements` is the in-order concatenation
# of what the elements resolve to.  The ghost attribute `g_elements` only RECORDS on the result which element sequence
# it was resolved from (the witness "there is a sequence E with ddv == flat-map of E, and E is, element by element,
# the denoted argument list"); `is_resolution_of_elements` states what the record means and is proved wherever a
# clause speaks about `g_elements`.  (Before L8: an assumed ghost relation, checked by the stand-in `list-resolution`.)

def _list_resolve_contract():
    return [c for c in _M_C08b.contracts if c.qname.endswith(':ListSdv.resolve')][0]


def _resolved_list(interp, list_sdv, symbols):
    from pyvc import verify as _verify
    d = _verify.apply_contract(interp, _list_resolve_contract(), ListSdv.__dict__['resolve'], [list_sdv, symbols], {})
    d.__dict__['g_elements'] = list_sdv._elements
    return d


def _list_sdv_resolve(interp, args, kwargs):
    """ListSdv.resolve(symbols) by its proved contract; the result records ITS element sequence"""
    return _resolved_list(interp, args[0], args[1] if len(args) > 1 else kwargs['symbols'])


M.model(ListSdv.__dict__['resolve'], _list_sdv_resolve)


def _share_list_resolution():
    from contracts.common import share_contracts
    share_contracts('C10', 'contracts.C08b_list_flatmap', lambda q: q.endswith(':ListSdv.resolve'))


M.after_load = _share_list_resolution


def is_resolution_of_elements(list_ddv, symbols):
    """what the record `g_elements` of a resolved list means: the ListDdv is the in-order concatenation of what
    each of these elements resolves to (against the given table)"""
    return type(list_ddv) is ListDdv \
        and is_flat_concat(list_ddv._string_elements, list_ddv.g_elements, len(list_ddv.g_elements), resolved_piece,
                           symbols)


def _resolved_seq(interp, xs, name):
    """[x.resolve(symbols) for x in xs] as a ghost sequence: element k keeps the ident of xs[k]"""
    uid = interp.st.fresh_name(name)

    def elem(interp2, idx_term):
        src = _models.slist_elem(interp2, xs, idx_term)
        return new_opaque(interp2, ResolvedI, uid + '[]', index=(idx_term,), preset={'ident': interp2.getattr(src, 'ident')})

    return SList(xs.length, elem, uid)


def _any_new_accumulated(interp, self, args, kwargs):
    """INDUCTION HYPOTHESIS (a): denotes g(self) (+) additional"""
    add = args[0]
    q = new_opaque(interp, AnyProgramSdvI, self._pv_uid + '.new_accumulated()')
    ga = interp.getattr
    q._pv_attrs['g_driver'] = ga(self, 'g_driver')
    q._pv_attrs['g_args'] = _seqs.concat(interp, ga(self, 'g_args'), add.arguments._arguments._elements)
    q._pv_attrs['g_stdin'] = _seqs.concat(interp, ga(self, 'g_stdin'), add.stdin)
    q._pv_attrs['g_transformations'] = _seqs.concat(interp, ga(self, 'g_transformations'), add.transformations)
    return q


def _any_resolve(interp, self, args, kwargs):
    """INDUCTION HYPOTHESIS (b): a ProgramDdv that is the in-order resolution of g(self)"""
    ga = interp.getattr
    name = self._pv_uid + '.resolve()'
    d = object.__new__(ProgramDdv)
    cmd = object.__new__(CommandDdv)
    drv = ga(self, 'g_driver')
    cmd._command_driver = new_opaque(interp, DriverDdvI, name + '.driver', preset={'ident': ga(drv, 'ident')})
    a = object.__new__(ArgumentsDdv)
    ls = object.__new__(ListSdv)
    ls._elements = ga(self, 'g_args')
    a._arguments = _resolved_list(interp, ls, args[0])      # == ListSdv(g_args).resolve(symbols), by its contract
    a._validators = ()
    cmd._arguments = a
    cmd._validators = ()
    d._command = cmd
    d._stdin = _resolved_seq(interp, ga(self, 'g_stdin'), name + '.stdin')
    d._transformations = _resolved_seq(interp, ga(self, 'g_transformations'), name + '.transformations')
    d._validators = ()
    return d


class AnyProgramSdvI(Interface):
    """the program a symbol refers to: any ProgramSdv for which (a) and (b) hold"""
    target_class = ProgramSdv
    attrs = {'g_driver': Iface(DriverSdvI), 'g_args': ARG_ELEMENTS, 'g_stdin': ELEMENTS, 'g_transformations': ELEMENTS,
             'references': Any_}
    methods = {'new_accumulated': Method(model=_any_new_accumulated), 'resolve': Method(model=_any_resolve)}


LOOKUP = 'lookup_program'


def _lookup_program(interp, args, kwargs):
    p = new_opaque(interp, AnyProgramSdvI, 'referenced-program')
    interp.st.emit(LOOKUP, args[1], p)
    return p


M.model(symbol_lookup.lookup_program, _lookup_program)
M.trust('symbol_lookup.lookup_program(symbols, name) gives the ProgramSdv the symbol was defined as (C08); that '
        'program satisfies the induction hypothesis (a), (b) -- proved here of both ProgramSdv classes')


def referenced(trace):
    ps = [e[2] for e in trace if e[0] == LOOKUP]
    if len(ps) != 1:
        raise ValueError('not exactly one program lookup')
    return ps[0]


COMMAND_SDV = Inst(CommandSdv, _driver=Iface(DriverSdvI), _arguments=ARGUMENTS_SDV)
PROGRAM_FOR_COMMAND = Inst(ProgramSdvForCommand, _command=COMMAND_SDV, _accumulated_components=ACCUMULATED)
PROGRAM_FOR_SYMBOL = Inst(ProgramSdvForSymbolReference, _symbol_name=Str, _accumulated_components=ACCUMULATED,
                          _symbol_reference=Any_)


def g_driver(p):
    return p.g_driver if is_opaque(p) else p._command._driver


def g_args(p):
    if is_opaque(p):
        return p.g_args
    return list(arg_elements(p._command._arguments)) + list(arg_elements(p._accumulated_components.arguments))


def g_stdin(p):
    return p.g_stdin if is_opaque(p) else p._accumulated_components.stdin


def g_transformations(p):
    return p.g_transformations if is_opaque(p) else p._accumulated_components.transformations


def denotes_accumulated(q, p, add, j):
    """g(q) = g(p) (+) add"""
    return same(g_driver(q), g_driver(p)) \
        and is_concat(g_args(q), g_args(p), arg_elements(add.arguments), j) \
        and is_concat(g_stdin(q), g_stdin(p), add.stdin, j) \
        and is_concat(g_transformations(q), g_transformations(p), add.transformations, j)


ARGS_ARE_FLAT_MAP = ('the resolved argument list is the in-order concatenation of what each of the recorded argument '
                     'elements resolves to against the given table (lists spliced in)')


def resolves(d, driver, args, stdin, transformations, j):
    """the ProgramDdv d is the element-wise, in-order resolution of (driver, args, stdin, transformations);
    the argument list: the flat-map (clause `is_resolution_of_elements`) of a sequence of elements that is, element
    by element, `args`"""
    return type(d) is ProgramDdv and type(d._command) is CommandDdv and type(d._command._arguments) is ArgumentsDdv \
        and d._command._command_driver.ident == driver.ident \
        and is_same_seq(d._command._arguments._arguments.g_elements, args, j) \
        and is_resolution_of(d._stdin, stdin, j) \
        and is_resolution_of(d._transformations, transformations, j)


P_PFC = 'exactly_lib.impls.types.program.sdvs.command_program_sdv'
P_PFS = 'exactly_lib.impls.types.program.sdvs.program_symbol_sdv'

M.contract(P_PFC + ':ProgramSdvForCommand.new_accumulated', inline=True,
           params=dict(self=PROGRAM_FOR_COMMAND, additional=ACCUMULATED), ghosts=dict(j=Int),
           ensures={'(a) denotes g(self) (+) additional: appended after everything accumulated so far':
                    lambda self, additional, result, j:
                    type(result) is ProgramSdvForCommand and denotes_accumulated(result, self, additional, j)},
           raises_only=())

M.contract(P_PFC + ':ProgramSdvForCommand.resolve', inline=True,
           params=dict(self=PROGRAM_FOR_COMMAND, symbols=Iface(SymbolsI)), ghosts=dict(j=Int),
           ensures={'(b) the in-order resolution of: driver, command arguments ++ accumulated arguments, stdin, '
                    'transformations': lambda self, result, j:
           resolves(result, g_driver(self), g_args(self), g_stdin(self), g_transformations(self), j),
                    ARGS_ARE_FLAT_MAP: lambda symbols, result:
                    is_resolution_of_elements(result._command._arguments._arguments, symbols)},
           raises_only=())

M.contract(P_PFS + ':ProgramSdvForSymbolReference.new_accumulated', inline=True,
           params=dict(self=PROGRAM_FOR_SYMBOL, additional=ACCUMULATED), ghosts=dict(j=Int),
           ensures={'(a) same symbol; own accumulated components first, then the additional ones':
                    lambda self, additional, result, j:
                    type(result) is ProgramSdvForSymbolReference and result._symbol_name == self._symbol_name
                    and acc_is_concat(result._accumulated_components, self._accumulated_components, additional, j)},
           raises_only=())


def concat2(xs, ys):
    return list(xs) + list(ys)


M.contract(P_PFS + ':ProgramSdvForSymbolReference.resolve',
           params=dict(self=PROGRAM_FOR_SYMBOL, symbols=Iface(SymbolsI)), ghosts=dict(j=Int),
           returns=Any_,
           ensures={
               'the symbol that is looked up is the referenced one': lambda self, trace:
               [e[1] for e in trace if e[0] == LOOKUP] == [self._symbol_name],
               '(b) REFERENCED PROGRAM FIRST: the in-order resolution of g(referenced) (+) own accumulated components':
                   lambda self, result, trace, j:
                   resolves(result, referenced(trace).g_driver,
                            concat2(referenced(trace).g_args, arg_elements(self._accumulated_components.arguments)),
                            concat2(referenced(trace).g_stdin, self._accumulated_components.stdin),
                            concat2(referenced(trace).g_transformations, self._accumulated_components.transformations),
                            j),
               ARGS_ARE_FLAT_MAP: lambda symbols, result:
               is_resolution_of_elements(result._command._arguments._arguments, symbols),
           }, raises_only=())

M.contract(P_PFS + ':plain', inline=True,
           params=dict(symbol_name=Str, arguments=ARGUMENTS_SDV),
           ensures={'reference with only the given arguments accumulated': lambda symbol_name, arguments, result:
           type(result) is ProgramSdvForSymbolReference and result._symbol_name == symbol_name
           and result._accumulated_components.arguments is arguments
           and is_empty_seq(result._accumulated_components.stdin)
           and is_empty_seq(result._accumulated_components.transformations)},
           raises_only=())


# ------------------------------------------------------------------------------ bounded stand-in: ListSdv.resolve is a flat-map

@M.bounded('list-resolution')
def _list_resolution(ctx):
    """(Extension L8: ListSdv.resolve is now PROVED to be this flat-map for element sequences of any length --
    contracts/C08b_list_flatmap.py, shared into C10 and used at its call sites; this stand-in is kept as a native
    cross-check with the real element classes and for list_sdvs.concat.)
    ListSdv.resolve (a loop that extends a list by each element's resolution) is executed natively on EVERY
    element sequence up to length 3 over 9 kinds of elements (constants: empty / with spaces / with quotes;
    references to a string, a path, lists of length 0, 1, 2, a list containing a reference) and compared with the
    independent definition  `flatten([strings denoted by e] for e in elements)`; and list_sdvs.concat is checked
    to commute with it on every pair of sequences up to length 2.  NOT counted as proved."""
    import itertools as it
    import pathlib as pl
    from exactly_lib.type_val_deps.types.string_ import string_sdvs
    from exactly_lib.symbol.sdv_structure import SymbolReference, container_of_builtin
    from exactly_lib.symbol.value_type import ValueType
    from exactly_lib.util.symbol_table import SymbolTable
    from exactly_lib.type_val_deps.types.path import path_sdvs
    from exactly_lib.tcfs.path_relativity import RelOptionType
    from exactly_lib.tcfs.hds import HomeDs
    from exactly_lib.tcfs.sds import SandboxDs
    from exactly_lib.tcfs.tcds import TestCaseDs
    from exactly_lib.type_val_deps.sym_ref.w_str_rend_restrictions import reference_restrictions as rr

    tcds = TestCaseDs(HomeDs(pl.Path('/hds/case'), pl.Path('/hds/act')), SandboxDs('/sds'))

    def ref(n):
        return SymbolReference(n, rr.is_any_type_w_str_rendering())

    symbols = SymbolTable({
        'S': container_of_builtin(ValueType.STRING, string_sdvs.str_constant('s val')),
        'P': container_of_builtin(ValueType.PATH,
                                  path_sdvs.of_rel_option_with_const_file_name(RelOptionType.REL_ACT, 'f.txt')),
        'L0': container_of_builtin(ValueType.LIST, list_sdvs.from_str_constants([])),
        'L1': container_of_builtin(ValueType.LIST, list_sdvs.from_str_constants([''])),
        'L2': container_of_builtin(ValueType.LIST, list_sdvs.from_str_constants(['a', ' b  c '])),
        'LR': container_of_builtin(ValueType.LIST, list_sdvs.from_elements(
            [list_sdvs.str_element('x'), list_sdvs.symbol_element(ref('L2'))])),
    })
    # kind -> (constructor of a fresh element, the strings it denotes: written from the reference manual)
    kinds = {
        'empty': (lambda: list_sdvs.str_element(''), ['']),
        'spaces': (lambda: list_sdvs.str_element(' two  words '), [' two  words ']),
        'quotes': (lambda: list_sdvs.str_element('"q" \'r\' -opt'), ['"q" \'r\' -opt']),
        '@S': (lambda: list_sdvs.symbol_element(ref('S')), ['s val']),
        '@P': (lambda: list_sdvs.symbol_element(ref('P')), ['/sds/act/f.txt']),
        '@L0': (lambda: list_sdvs.symbol_element(ref('L0')), []),
        '@L1': (lambda: list_sdvs.symbol_element(ref('L1')), ['']),
        '@L2': (lambda: list_sdvs.symbol_element(ref('L2')), ['a', ' b  c ']),
        '@LR': (lambda: list_sdvs.symbol_element(ref('LR')), ['x', 'a', ' b  c ']),
    }

    def actual(list_sdv):
        return list_sdv.resolve(symbols).value_of_any_dependency(tcds)

    def expected(seq):
        out = []
        for k in seq:
            out += kinds[k][1]
        return out

    def mk(seq):
        return list_sdvs.from_elements([kinds[k][0]() for k in seq])

    cases, failures = 0, []
    seqs_ = [s for n in range(4) for s in it.product(sorted(kinds), repeat=n)]
    for seq in seqs_:
        cases += 1
        got = actual(mk(seq))
        if got != expected(seq):
            failures.append({'input': list(seq), 'expected': expected(seq), 'actual': got})
    short = [s for s in seqs_ if len(s) <= 2]
    for a in short:
        for b in short:
            cases += 1
            got = actual(list_sdvs.concat([mk(a), mk(b)]))
            if got != expected(a) + expected(b):
                failures.append({'input': [list(a), list(b)], 'expected': expected(a) + expected(b), 'actual': got})
    ctx.bounded_result('ListSdv.resolve / list_sdvs.concat (flat-map of element resolutions, in order)',
                       bound='element sequences of length <= 3 over 9 element kinds; concat of pairs of length <= 2',
                       cases=cases, exhaustive=True, failures=failures,
                       note='independent definition: flatten of the strings each element denotes')


# ============================================================================== stdin of the action to check

from exactly_lib.type_val_prims.string_source.impls import concat as ss_concat
from exactly_lib.impls.actors.program import execution as pgm_execution

CONCAT = 'string_source.concat'


def _concat_string_source(interp, args, kwargs):
    """assumed contract of string_source.impls.concat.string_source(parts, mem_buff_size, file_name): a string
    source whose text is the concatenation of the texts of `parts`, IN THAT ORDER (its contents object writes
    `for part in parts: part.contents().write_to(output)`; what a text is: C14).  Ghost: g_parts = parts."""
    parts = args[0] if args else kwargs['parts']
    r = new_opaque(interp, StringSourceI, 'concat-string-source', preset={'g_parts': _seqs.frozen(parts)})
    interp.st.emit(CONCAT, parts, r)
    return r


M.model(ss_concat.string_source, _concat_string_source)
M.trust('string_source.impls.concat.string_source(parts, ...) denotes the concatenation of the texts of its parts in '
        'the order of the sequence it is given (C14 proves what the text of a string source is); it starts no process')

STDIN_PARTS = ListOf(STRING_SOURCE)


def stdin_denotes(result, parts, j):
    """`result` is the text source for the concatenation of `parts` (None: no stdin, i.e. /dev/null)"""
    if len(parts) == 0:
        return result is None
    if len(parts) == 1:
        return result is not None and same(result, parts[0])
    return result is not None and is_same_seq(result.g_parts, parts, j)


def stdin_parts_of(act_stdin, program_stdin):
    """stdin of a program run as the action to check: the stdin parts of the program (accumulation order),
    then the stdin set by the [setup] `stdin` instruction"""
    return list(program_stdin) + ([act_stdin] if act_stdin is not None else [])


M.contract('exactly_lib.type_val_prims.string_source.impls.concat:string_source_of_mb_empty_sequence', inline=True,
           params=dict(parts=STDIN_PARTS, mem_buff_size=Nat), ghosts=dict(j=Int),
           ensures={'none / the single part / the concatenation in order': lambda parts, result, j:
           stdin_denotes(result, parts, j)}, raises_only=())

M.contract('exactly_lib.impls.actors.program.execution:Executor._resolve_stdin', inline=True,
           params=dict(act_stdin=Opt(STRING_SOURCE), program_stdin=STDIN_PARTS, mem_buff_size=Nat),
           ghosts=dict(j=Int),
           ensures={'program stdin parts first (in accumulation order), then the act-phase stdin; concatenated':
                    lambda act_stdin, program_stdin, result, j:
                    stdin_denotes(result, stdin_parts_of(act_stdin, program_stdin), j),
                    'the stdin parts of the program are not modified': lambda program_stdin, old:
                    len(program_stdin) == old},
           old=lambda program_stdin: len(program_stdin),
           raises_only=())


# ============================================================================== the outcome is captured

from exactly_lib.execution.partial_execution.impl import atc_execution
from exactly_lib.execution.result import ActionToCheckOutcome, ExecutionFailureStatus, PhaseStepFailureException
from exactly_lib.test_case.result.eh import ExitCodeOrHardError
from exactly_lib.test_case.phases.act.execution_input import AtcExecutionInput
from exactly_lib.test_case.phases.act.actor import ActionToCheck
from exactly_lib.test_case.app_env import ApplicationEnvironment

P_ATC = 'exactly_lib.execution.partial_execution.impl.atc_execution'

# --- file system with ghost links: an open file knows the path it was opened from

OPEN = 'path.open'
WRITE = 'file.write'


def _path_open(interp, self, args, kwargs):
    mode = args[0] if args else kwargs.get('mode', 'r')
    interp.st.emit(OPEN, self, mode)
    return new_opaque(interp, FileCtxI, self._pv_uid + '.open()', preset={'g_path': self, 'g_mode': mode})


def _ctx_enter(interp, self, args, kwargs):
    return new_opaque(interp, FileI, self._pv_uid + '.file', preset={'g_path': self._pv_attrs['g_path']})


FileI.attrs = {'g_path': Any_}
FileCtxI.attrs = {'g_path': Any_, 'g_mode': Any_}
FileCtxI.methods = dict(FileCtxI.methods, __enter__=Method(model=_ctx_enter))
FsPathI.methods = dict(FsPathI.methods, open=Method(model=_path_open), chmod=Method())
FileCtxI.methods['read'] = Method(returns=Str, event='file.read')      # `f = path.open()` used without `with`
FileCtxI.methods['close'] = Method()


def opened(trace):
    """(path, mode) of every file opened on this path, in order"""
    return [(e[1], e[2]) for e in trace if e[0] == OPEN]


def written(trace):
    """(path of the file, text) of every write on this path, in order"""
    return [(e[1].g_path, e[2][0]) for e in trace if e[0] == WRITE]


class ResultDirI(Interface):
    attrs = {'exitcode_file': Iface(FsPathI), 'stdout_file': Iface(FsPathI), 'stderr_file': Iface(FsPathI)}


class SdsI(Interface):
    attrs = {'result': Iface(ResultDirI)}
    methods = {'relative_to_sds_root': Method(returns=Any_)}


class TcdsI(Interface):
    attrs = {'sds': Iface(SdsI), 'hds': Any_}


ATC_EXECUTE = 'atc.execute'
EXIT_CODE_OR_HARD_ERROR = Union(Inst(ExitCodeOrHardError, _tuple=[Int, Const(None)]),
                                Inst(ExitCodeOrHardError, _tuple=[Const(None), Any_]))


class ActionToCheckI(Interface):
    """the action to check made by the actor (the actors' `execute` are verified in C19_timeouts / below)"""
    target_class = ActionToCheck
    methods = {'execute': Method(returns=EXIT_CODE_OR_HARD_ERROR, event=ATC_EXECUTE,
                                 params=['environment', 'os_services', 'atc_input', 'output'])}


ATC_INPUT_RESOLVE = 'atc_input.resolve'


class AtcInputAdvI(Interface):
    methods = {'resolve': Method(returns=Inst(AtcExecutionInput, _tuple=[Opt(STRING_SOURCE), Opt(Any_)]),
                                 event=ATC_INPUT_RESOLVE),
               'validate': Method(returns=Opt(Any_))}


class InstrEnvI(Interface):
    """an InstructionEnvironmentForPostSdsStep, as far as the ATC executor uses it"""
    attrs = {'tcds': Iface(TcdsI), 'proc_exe_settings': SETTINGS, 'mem_buff_size': Nat,
             'tmp_dir__path_access': Iface(lambda: TmpFileStorageI)}


class TmpFileStorageI(Interface):
    attrs = {'paths_access': Iface(DirFileSpaceI), 'root_dir__existing': Iface(FsPathI)}


OUTPUT_FILES = Inst(StdOutputFiles, _tuple=[Any_, Any_])


def _mk_atc_executor(interp, name):
    x = object.__new__(atc_execution.ActionToCheckExecutor)
    x.atc = new_opaque(interp, ActionToCheckI, name + '.atc')
    x.environment_for_validate_post_setup = new_opaque(interp, InstrEnvI, name + '.env_vps')
    x.environment_for_other_steps = new_opaque(interp, InstrEnvI, name + '.env')
    x.os_services = new_opaque(interp, OsServicesI, name + '.os_services')
    x.tcds = new_opaque(interp, TcdsI, name + '.tcds')
    x.atc_input = new_opaque(interp, AtcInputAdvI, name + '.atc_input')
    x.exe_atc_and_skip_assertions = Opt(OUTPUT_FILES).make(interp, name + '.exe_atc_and_skip_assertions')
    x._atc_outcome = None
    return x


ATC_EXECUTOR = Custom(_mk_atc_executor)


def result_files(self):
    return self.tcds.sds.result


M.contract(P_ATC + ':ActionToCheckExecutor._store_exit_code', inline=True,
           params=dict(self=ATC_EXECUTOR, exitcode=Int),
           ensures={'result/exit-code is (re)written with exactly the decimal text of the exit code':
                    lambda self, exitcode, trace:
                    opened(trace) == [(result_files(self).exitcode_file, 'w')]
                    and len(written(trace)) == 1 and written(trace)[0][0] is result_files(self).exitcode_file
                    and written(trace)[0][1] == str(exitcode)},
           raises_only=())

M.contract(P_ATC + ':ActionToCheckExecutor._register_outcome', inline=True,
           params=dict(self=ATC_EXECUTOR, exit_code_or_hard_error=EXIT_CODE_OR_HARD_ERROR),
           ensures={
               'exit code: it is the registered outcome, and it is stored in result/exit-code (unless assertions are '
               'skipped)': lambda self, exit_code_or_hard_error, trace:
               (not exit_code_or_hard_error[0] is not None)
               or (type(self._atc_outcome) is ActionToCheckOutcome
                   and self._atc_outcome[0] == exit_code_or_hard_error[0]
                   and (written(trace) == [] if self.exe_atc_and_skip_assertions is not None else
                        (len(written(trace)) == 1 and written(trace)[0][0] is result_files(self).exitcode_file
                         and written(trace)[0][1] == str(exit_code_or_hard_error[0])))),
               'hard error: no outcome, nothing stored': lambda self, exit_code_or_hard_error, trace:
               (not exit_code_or_hard_error[0] is None) or (self._atc_outcome is None and written(trace) == []),
           }, raises_only=())


def atc_executions(trace):
    return [e[2] for e in trace if e[0] == ATC_EXECUTE]


def atc_results(trace):
    return [e[2] for e in trace if e[0] == ATC_EXECUTE + ':returned']


M.contract(P_ATC + ':ActionToCheckExecutor._do_execute_w_output_files', inline=True,
           params=dict(self=ATC_EXECUTOR, output=OUTPUT_FILES),
           ensures={
               'the ATC is executed once: environment of the step, OS services, the resolved act-phase input, the '
               'given output files': lambda self, output, trace:
               len(atc_executions(trace)) == 1
               and atc_executions(trace)[0][0] is self.environment_for_other_steps
               and atc_executions(trace)[0][1] is self.os_services
               and atc_executions(trace)[0][2] is [e[2] for e in trace if e[0] == ATC_INPUT_RESOLVE + ':returned'][0]
               and atc_executions(trace)[0][3] is output,
               'returns what the ATC returned': lambda result, trace: result is atc_results(trace)[0],
               'the exit code stored and registered is the one returned': lambda self, result, trace:
               (result[0] is None and self._atc_outcome is None and written(trace) == [])
               or (result[0] is not None and self._atc_outcome[0] == result[0]
                   and (self.exe_atc_and_skip_assertions is not None
                        or written(trace) == [(result_files(self).exitcode_file, str(result[0]))])),
           }, raises_only=())

M.contract('exactly_lib.util.file_utils.misc_utils:make_file_read_only__p', inline=True,
           params=dict(path=Iface(FsPathI)), ensures={'returns': lambda result: result is None}, raises_only=())

M.contract(P_ATC + ':ActionToCheckExecutor._do_execute', inline=True,
           params=dict(self=ATC_EXECUTOR), returns=EXIT_CODE_OR_HARD_ERROR,
           ensures={
               'stdout/stderr given to the ATC are result/stdout and result/stderr, opened for writing (or the files '
               'of the act-output reporter when assertions are skipped)': lambda self, trace:
               len(atc_executions(trace)) == 1
               and ((atc_executions(trace)[0][3] is self.exe_atc_and_skip_assertions)
                    if self.exe_atc_and_skip_assertions is not None else
                    (atc_executions(trace)[0][3].out.g_path is result_files(self).stdout_file
                     and atc_executions(trace)[0][3].err.g_path is result_files(self).stderr_file
                     and opened(trace)[0] == (result_files(self).stdout_file, 'w')
                     and opened(trace)[1] == (result_files(self).stderr_file, 'w'))),
               'returns what the ATC returned; exit code registered': lambda self, result, trace:
               result is atc_results(trace)[0]
               and ((result[0] is None and self._atc_outcome is None)
                    or (result[0] is not None and self._atc_outcome[0] == result[0])),
           }, raises_only=())


# --- the exit-code assertion reads what was stored

from exactly_lib.impls.instructions.assert_.process_output.impl.exit_code import getter_from_atc

M.contract('exactly_lib.impls.instructions.assert_.process_output.impl.exit_code.getter_from_atc:_ExitCodeGetter._get_exit_code',
           inline=True,        # (_ExitCodeGetter.get, C10b_assertions, states the round trip for the whole model)
           # failing open()/read() of result/exit-code are environmental faults that the file model does not produce
           cover=('raise HardErrorException',),
           params=dict(self=Inst(getter_from_atc._ExitCodeGetter, _tcds=Iface(TcdsI), _sds=Iface(SdsI))),
           ghosts=dict(n=Int), returns=Int,
           ensures={
               'reads result/exit-code': lambda self, trace: opened(trace) == [(self._sds.result.exitcode_file, 'r')],
               'round trip: if the file holds str(n) -- what _store_exit_code wrote -- the assertion sees n':
                   lambda result, trace, n:
                   (not ([e[2] for e in trace if e[0] == 'file.read:returned'][0] == str(n))) or result == n,
           },
           raises={HardErrorException: {}},
           raises_only=())


# ============================================================================== non-zero exit code of run / $ / %

from exactly_lib.impls.instructions.multi_phase.utils import instruction_from_parts_for_executing_program as run_instr
from exactly_lib.impls.instructions.multi_phase.utils import instruction_part_utils
from exactly_lib.impls.instructions.multi_phase import run as run_instruction
from exactly_lib.test_case.result import pfh, sh, svh

P_RUN = 'exactly_lib.impls.instructions.multi_phase.utils.instruction_from_parts_for_executing_program'
P_IPU = 'exactly_lib.impls.instructions.multi_phase.utils.instruction_part_utils'

EXECUTION_RESULT = Inst(run_instr.ExecutionResultAndStderr, _tuple=[Int, Opt(Str), Any_, Any_])

M.contract(P_RUN + ':result_to_sh', inline=True, params=dict(result=EXECUTION_RESULT),
           ensures={'non-zero exit code => HARD_ERROR, zero => success (phases other than [assert])':
                    lambda result, ret: (ret[0] is not None) if result[0] != 0 else (ret[0] is None),
                    'a SuccessOrHardError': lambda ret: type(ret) is sh.SuccessOrHardError},
           raises_only=())

M.contract(P_RUN + ':result_to_pfh', inline=True, params=dict(result=EXECUTION_RESULT),
           ensures={'non-zero exit code => FAIL, zero => PASS ([assert])': lambda result, ret:
           ret.status is (pfh.PassOrFailOrHardErrorEnum.FAIL if result[0] != 0 else pfh.PassOrFailOrHardErrorEnum.PASS)},
           raises_only=())

RESULT_TRANSLATOR = Inst(run_instr.ResultTranslator)
M.contract(P_RUN + ':ResultTranslator.translate_for_non_assertion', inline=True,
           params=dict(self=RESULT_TRANSLATOR, main_result=EXECUTION_RESULT),
           ensures={'non-zero exit code => HARD_ERROR': lambda main_result, result:
           (result[0] is not None) if main_result[0] != 0 else (result[0] is None)}, raises_only=())
M.contract(P_RUN + ':ResultTranslator.translate_for_assertion', inline=True,
           params=dict(self=RESULT_TRANSLATOR, main_result=EXECUTION_RESULT),
           ensures={'non-zero exit code => FAIL': lambda main_result, result:
           result.status is (pfh.PassOrFailOrHardErrorEnum.FAIL if main_result[0] != 0
                             else pfh.PassOrFailOrHardErrorEnum.PASS)}, raises_only=())

IGNORING_TRANSLATOR = Inst(instruction_part_utils.MainStepResultTranslatorForUnconditionalSuccess)
M.contract(P_IPU + ':MainStepResultTranslatorForUnconditionalSuccess.translate_for_non_assertion', inline=True,
           params=dict(self=IGNORING_TRANSLATOR, error_message=EXECUTION_RESULT),
           ensures={'-ignore-exit-code: always success': lambda result: result[0] is None}, raises_only=())
M.contract(P_IPU + ':MainStepResultTranslatorForUnconditionalSuccess.translate_for_assertion', inline=True,
           params=dict(self=IGNORING_TRANSLATOR, error_message=EXECUTION_RESULT),
           ensures={'-ignore-exit-code: always PASS': lambda result: result.status is pfh.PassOrFailOrHardErrorEnum.PASS},
           raises_only=())


class OptionParserI(Interface):
    methods = {'parse': Method(returns=Bool, event='option-is-present')}


M.contract('exactly_lib.impls.instructions.multi_phase.run:_InstructionPartsParser._parse_result_translator',
           params=dict(self=Inst(run_instruction._InstructionPartsParser, _embryo_parser=Any_,
                                 _IGNORE_EXIT_CODE_OPTION_PARSER=Iface(OptionParserI)), source=Any_),
           returns=Any_,
           ensures={'the exit code is ignored iff the option is given': lambda result, trace:
           type(result) is (instruction_part_utils.MainStepResultTranslatorForUnconditionalSuccess
                            if [e[2] for e in trace if e[0] == 'option-is-present:returned'][0]
                            else run_instr.ResultTranslator)},
           raises_only=())


# --- which translation a phase uses

from exactly_lib.impls.instructions.assert_.utils import instruction_from_parts as assert_from_parts
from exactly_lib.impls.instructions.setup.utils import instruction_from_parts as setup_from_parts
from exactly_lib.impls.instructions.before_assert.utils import instruction_from_parts as before_assert_from_parts
from exactly_lib.impls.instructions.cleanup.utils import instruction_from_parts as cleanup_from_parts
from exactly_lib.impls.instructions.multi_phase.utils.instruction_parts import InstructionParts, MainStepExecutor

AS_ASSERTION = 'apply_as_assertion'
AS_NON_ASSERTION = 'apply_as_non_assertion'


class MainStepExecutorI(Interface):
    target_class = MainStepExecutor
    methods = {AS_ASSERTION: Method(returns=Any_, event=AS_ASSERTION),
               AS_NON_ASSERTION: Method(returns=Any_, event=AS_NON_ASSERTION)}


class SvhValidatorI(Interface):
    methods = {'validate_pre_sds_if_applicable': Method(returns=Iface(lambda: SvhI)),
               'validate_post_sds_if_applicable': Method(returns=Iface(lambda: SvhI))}


class SvhI(Interface):
    attrs = {'is_success': Bool, 'failure_message': Any_}


class EnvWithPathResolvingI(Interface):
    attrs = {'path_resolving_environment': Any_, 'path_resolving_environment_pre_or_post_sds': Any_}


class SdvValidatorI(Interface):
    methods = {'validate_pre_sds_if_applicable': Method(returns=Opt(Any_)),
               'validate_post_sds_if_applicable': Method(returns=Opt(Any_))}


INSTRUCTION_PARTS = Inst(InstructionParts, _tuple=[Iface(SdvValidatorI), Iface(MainStepExecutorI), Any_])


def applied_as(trace):
    return [e[0] for e in trace if e[0] in (AS_ASSERTION, AS_NON_ASSERTION)]


M.contract('exactly_lib.impls.instructions.assert_.utils.instruction_from_parts:AssertPhaseInstructionFromParts.main',
           params=dict(self=Inst(assert_from_parts.AssertPhaseInstructionFromParts, _parts=INSTRUCTION_PARTS,
                                 _validator=Iface(SvhValidatorI)),
                       environment=Iface(EnvWithPathResolvingI), settings=Any_, os_services=Any_),
           returns=Any_,
           ensures={'[assert]: the main step is applied AS ASSERTION (non-zero exit code => FAIL)':
                    lambda trace: applied_as(trace) in ([], [AS_ASSERTION])},
           raises_only=())

for _mod, _cls, _extra in ((setup_from_parts, 'SetupPhaseInstructionFromParts', dict(settings_builder=Any_)),
                           (before_assert_from_parts, 'BeforeAssertPhaseInstructionFromParts', {}),
                           (cleanup_from_parts, 'CleanupPhaseInstructionFromParts', dict(previous_phase=Any_))):
    M.contract('%s:%s.main' % (_mod.__name__, _cls),
               params=dict(self=Inst(getattr(_mod, _cls), setup=INSTRUCTION_PARTS, _validator=Iface(SvhValidatorI)),
                           environment=Iface(EnvWithPathResolvingI), settings=Any_, os_services=Any_, **_extra),
               returns=Any_,
               ensures={'phases other than [assert]: the main step is applied AS NON-ASSERTION (non-zero exit code => '
                        'HARD_ERROR)': lambda trace: applied_as(trace) in ([], [AS_NON_ASSERTION])},
               raises_only=())


# ============================================================================== the stdin set in [setup]

from exactly_lib.impls.instructions.setup import stdin as stdin_instruction
from exactly_lib.test_case.phases.setup.settings_builder import SetupSettingsBuilder
from exactly_lib.execution.partial_execution import setup_settings_handler

P_STDIN = 'exactly_lib.impls.instructions.setup.stdin'
P_SSH = 'exactly_lib.execution.partial_execution.setup_settings_handler'

SETTINGS_BUILDER = Inst(SetupSettingsBuilder, _stdin=Opt(Any_), _environ=Opt(Any_))


class EnvForStdinI(Interface):
    attrs = {'symbols': Any_, 'tcds': Any_}


M.contract(P_STDIN + ':_Instruction.main',
           params=dict(self=Inst(stdin_instruction._Instruction, _contents=Iface(ElementI)),
                       environment=Iface(EnvForStdinI), settings=Any_, os_services=Any_,
                       settings_builder=SETTINGS_BUILDER),
           returns=Any_,
           ensures={
               'the stdin setting becomes: the text source of the instruction, resolved, for the directories of this '
               'test case': lambda self, environment, settings_builder:
               type(settings_builder._stdin) is stdin_instruction._StdinOfStringSource
               and settings_builder._stdin._string_source.ident == self._contents.ident
               and settings_builder._stdin._tcds is environment.tcds,
               'success': lambda result: result[0] is None,
           }, raises_only=())

M.contract(P_STDIN + ':_StdinOfStringSource.resolve',
           params=dict(self=Inst(stdin_instruction._StdinOfStringSource, _string_source=Iface(ResolvedI), _tcds=Any_),
                       environment=Any_),
           returns=Any_,
           ensures={'the string source primitive of the text source that was set':
                    lambda self, result: result.ident == self._string_source.ident},
           raises_only=())


class StdinAdvI(Interface):
    """the stdin setting (an AdvWValidation[StringSource]); `resolve` keeps the identity token"""
    attrs = {'ident': Int}
    methods = {'resolve': Method(returns=Iface(PrimElemI), ensures=lambda self, environment, result: result.ident == self.ident),
               'validate': Method(returns=Opt(Any_))}


M.contract(P_SSH + ':StandardSetupSettingsHandler.as_atc_execution_input', inline=True,
           params=dict(self=Inst(setup_settings_handler.StandardSetupSettingsHandler,
                                 _builder=Inst(SetupSettingsBuilder, _stdin=Opt(Iface(StdinAdvI)), _environ=Opt(Any_)))),
           ensures={'the stdin and environ that the [setup] phase left in the builder': lambda self, result:
           type(result) is setup_settings_handler.AtcExecutionInputAdv
           and result._stdin == self._builder._stdin and result._environ == self._builder._environ},
           raises_only=())

M.contract(P_SSH + ':AtcExecutionInputAdv.resolve', inline=True,
           params=dict(self=Inst(setup_settings_handler.AtcExecutionInputAdv, _stdin=Opt(Iface(StdinAdvI)),
                                 _environ=Opt(Any_)), environment=Any_),
           ensures={'stdin: none, or the primitive of the stdin setting; environ unchanged': lambda self, result:
           type(result) is AtcExecutionInput and result[1] == self._environ
           and ((result[0] is None) if self._stdin is None else (result[0].ident == self._stdin.ident))},
           raises_only=())


# ============================================================================== the current directory (frame)

import ast as _ast
import os as _os
from pyvc import REPO_SRC


@M.check('cwd-frame')
def _cwd_frame(ctx):
    """The child inherits the current directory of the process: ProcessExecutor.execute passes no `cwd=`
    (clause `one-process` above: the keyword set is exactly stdin/stdout/stderr/env/timeout/shell), and no other
    call in the tree passes one except the preprocessor of the test case FILE (outside the property).  The current
    directory of the process is changed only by: _PartialExecutor._set_cwd_to_act_dir (to the act directory, C04),
    the `cd` instruction (C11) and the restoring context manager of misc_utils."""
    root = _os.path.join(REPO_SRC, 'exactly_lib')
    cwd_kw, chdirs = [], []
    for dirpath, _dirs, files in _os.walk(root):
        for fn in files:
            if fn.endswith('.py'):
                path = _os.path.join(dirpath, fn)
                rel = _os.path.relpath(path, root).replace(_os.sep, '/')
                for n in _ast.walk(_ast.parse(open(path, encoding='utf-8').read(), path)):
                    if isinstance(n, _ast.Call) and any(k.arg == 'cwd' for k in n.keywords):
                        cwd_kw.append(rel)
                    if isinstance(n, _ast.Attribute) and n.attr in ('chdir', 'fchdir'):
                        chdirs.append(rel)
    ctx.obligation('no call passes cwd= except the preprocessor of the test-case file',
                   cwd_kw == ['processing/preprocessor.py'], 'scan', detail={'calls with cwd=': cwd_kw})
    ctx.obligation('the current directory is changed only by the partial executor (act dir), the `cd` instruction and '
                   'the cwd-preserving context manager',
                   sorted(chdirs) == ['execution/partial_execution/impl/executor.py',
                                      'impls/instructions/multi_phase/change_dir.py',
                                      'util/file_utils/misc_utils.py'],
                   'scan', detail={'chdir references': sorted(chdirs)})


# ============================================================================== what the ATC process gets (used by the actor contracts)

def stdin_file_is(stdin_file, parts, trace, j):
    """the file given to the process as stdin is /dev/null when there is no stdin part, else the file of the text
    source that denotes the concatenation of `parts`"""
    if len(parts) == 0:
        return stdin_file is subprocess.DEVNULL
    if len(parts) == 1:
        return stdin_file.g_path is parts[0].contents().as_file
    cs = [e for e in trace if e[0] == CONCAT]
    return len(cs) == 1 and is_same_seq(cs[0][1], parts, j) and stdin_file.g_path is cs[0][2].contents().as_file


# ============================================================================== the interpreter actors

from exactly_lib.impls.actors import file_interpreter
from exactly_lib.impls.actors.source_interpreter import executor as src_interpreter_executor
from exactly_lib.type_val_deps.dep_variants.sdv.full_deps.resolving_environment import FullResolvingEnvironment

INTERPRETER_COMMAND = 'interpreter-command'
SOURCE_FILE = 'source-file'
ACT_ARGUMENTS = 'act-arguments'


class InterpreterCommandDdvI(Interface):
    attrs = {'validators': ListOf(Any_)}
    methods = {'value_of_any_dependency': Method(returns=COMMAND, event=INTERPRETER_COMMAND)}


class InterpreterCommandSdvI(Interface):
    target_class = CommandSdv
    attrs = {'references': ListOf(Any_)}
    methods = {'resolve': Method(returns=Iface(InterpreterCommandDdvI))}


class SourcePathDdvI(Interface):
    methods = {'value_of_any_dependency': Method(returns=Iface(PathI), event=SOURCE_FILE)}


class SourcePathSdvI(Interface):
    attrs = {'references': ListOf(Any_)}
    methods = {'resolve': Method(returns=Iface(SourcePathDdvI))}


class ActArgumentsDdvI(Interface):
    attrs = {'validators': ListOf(Any_)}
    methods = {'value_of_any_dependency': Method(returns=ARGUMENTS, event=ACT_ARGUMENTS)}


class ActArgumentsSdvI(Interface):
    attrs = {'references': ListOf(Any_)}
    methods = {'resolve': Method(returns=Iface(ActArgumentsDdvI))}


def _parsing(interp, args, kwargs):
    """assumed: parsing of the act phase for the file interpreter actor gives a source file path and arguments
    (parse_path / parse_arguments: C09, C12)"""
    info = object.__new__(file_interpreter._SourceInfoForInterpreterWithArgumentList)
    info.path = new_opaque(interp, SourcePathSdvI, 'act.source-file')
    info.arguments = new_opaque(interp, ActArgumentsSdvI, 'act.arguments')
    interp.st.ghost['file-interpreter.parsed'] = info      # (what was parsed: named by the symbol-usages clause)

    class _P:
        def parse(self):
            return info

    return _P()


M.model(file_interpreter._Parsing, _parsing)
M.trust('file_interpreter._Parsing(instructions).parse() gives the source file (a path) and the argument list written '
        'in the act phase (syntax of paths and argument lists: C09, C12)')


def _returned(trace, event):
    return [e[2] for e in trace if e[0] == event + ':returned'][0]


def file_interpreter_argv(cmd, trace, j):
    """argv = interpreter command (its driver and arguments) + the source file + the arguments of the act phase"""
    ic = _returned(trace, INTERPRETER_COMMAND)
    args = _returned(trace, ACT_ARGUMENTS)
    n = len(ic._arguments)
    return type(cmd) is Command and cmd._driver is ic._driver \
        and len(cmd._arguments) == n + 1 + len(args) \
        and ((not (0 <= j < n)) or cmd._arguments[j] == ic._arguments[j]) \
        and cmd._arguments[n] == str(_returned(trace, SOURCE_FILE)) \
        and ((not (0 <= j < len(args))) or cmd._arguments[n + 1 + j] == args[j]) \
        and len(ic._arguments) == n


def _is_concatenation_of_3(xs, a, b, c, j):
    """xs == a ++ b ++ c (element j of each part, j arbitrary: a universally quantified index as a ghost)"""
    return len(xs) == len(a) + len(b) + len(c) \
        and ((not (0 <= j < len(a))) or xs[j] is a[j]) \
        and ((not (0 <= j < len(b))) or xs[len(a) + j] is b[j]) \
        and ((not (0 <= j < len(c))) or xs[len(a) + len(b) + j] is c[j])


M.contract('exactly_lib.impls.actors.file_interpreter:_Actor.parse',
           params=dict(self=Inst(file_interpreter._Actor, _interpreter=Iface(InterpreterCommandSdvI)),
                       instructions=Any_),
           ghosts=dict(j=Int, env=Inst(FullResolvingEnvironment, _tuple=[Any_, Any_, Any_])),
           returns=Any_,
           ensures={'for every resolving environment: the command to execute is interpreter + source file + arguments '
                    '(the interpreter\'s own argument list is not modified)': lambda result, env, trace, j:
           type(result) is file_interpreter._ActionToCheck
           and file_interpreter_argv(result._make_command(env), trace, j),
                    # C03 / C08: the symbols of everything that is resolved when the command is made are reported as
                    # symbol usages, so that they are validated before anything is executed (seeded change C03-s8)
                    'symbol usages: the references of the interpreter, of the source file and of the arguments':
                        lambda self, result, ghost, j:
                        _is_concatenation_of_3(result._symbol_usages, self._interpreter.references,
                                               ghost['file-interpreter.parsed'].path.references,
                                               ghost['file-interpreter.parsed'].arguments.references, j)},
           props=('C10', 'C03', 'C08'),
           raises_only=())


# --- source interpreter: the act phase source is written to a file that becomes the last argument

class InterpreterSdvI(Interface):
    target_class = CommandSdv
    methods = {'new_with_additional_arguments': Method(returns=Any_, event='new_with_additional_arguments')}


class InterpreterAndSourceI(Interface):
    attrs = {'interpreter': Iface(InterpreterSdvI), 'source': Any_}


M.contract('exactly_lib.impls.actors.source_interpreter.executor:Executor._command_to_execute',
           params=dict(self=Inst(src_interpreter_executor.Executor, os_services=Any_, act_source_file_base_name=Str,
                                 object_to_execute=Iface(InterpreterAndSourceI), source_file_path=Iface(PathI)),
                       environment=Any_),
           returns=Any_,
           ensures={'the interpreter command with ONE additional argument: the path of the source file':
                    lambda self, result, trace:
                    len([e for e in trace if e[0] == 'new_with_additional_arguments']) == 1
                    and result is _returned(trace, 'new_with_additional_arguments')
                    and _single_constant_argument(
                        [e[2][0] for e in trace if e[0] == 'new_with_additional_arguments'][0],
                        str(self.source_file_path))},
           raises_only=())


def _single_constant_argument(arguments_sdv, text):
    """the ArgumentsSdv consists of exactly one element: the string constant `text`"""
    es = arguments_sdv._arguments._elements
    if len(es) != 1 or len(arguments_sdv._validators) != 0:
        return False
    fragments = es[0]._string_sdv._fragment_sdvs
    return len(fragments) == 1 and fragments[0].string_constant == text


# ============================================================================== from the resolved program (DDV) to the primitive

from exactly_lib.type_val_deps.types.program.ddv.program import ProgramAdv
from exactly_lib.type_val_deps.types.program.ddv import commands as command_ddvs
from exactly_lib.type_val_prims.program.program import Program

P_DDV = 'exactly_lib.type_val_deps.types.program.ddv'


class StringDdvI(Interface):
    """a resolved string (argument): its value for the directories of a test case is a pure function"""
    methods = {'value_of_any_dependency': Method(returns=Str, pure=True),
               'value_when_no_dir_dependencies': Method(returns=Str, pure=True)}


LIST_DDV = Inst(ListDdv, _string_elements=ListOf(Iface(StringDdvI)))
ARGUMENTS_DDV = Inst(ArgumentsDdv, _arguments=LIST_DDV, _validators=Any_)


def is_values_of(strings, elements, tcds, j):
    return len(strings) == len(elements) \
        and ((not (0 <= j < len(elements))) or strings[j] == elements[j].value_of_any_dependency(tcds))


M.contract('exactly_lib.type_val_deps.types.list_.list_ddv:ListDdv.value_of_any_dependency', inline=True,
           params=dict(self=LIST_DDV, tcds=Any_), ghosts=dict(j=Int),
           ensures={'one string per element, in order: the value of that element': lambda self, tcds, result, j:
           is_values_of(result, self._string_elements, tcds, j)}, raises_only=())

M.contract(P_DDV + '.argument:ArgumentsDdv.value_of_any_dependency', inline=True,
           params=dict(self=ARGUMENTS_DDV, tcds=Any_), ghosts=dict(j=Int),
           ensures={'one string per element, in order': lambda self, tcds, result, j:
           is_values_of(result, self._arguments._string_elements, tcds, j)}, raises_only=())


class PathDdvI(Interface):
    methods = {'value_of_any_dependency__d': Method(returns=Iface(DescribedPathI), pure=True)}


DRIVER_DDV_SHELL = Inst(command_ddvs.CommandDriverDdvForShell, _command_line=Iface(StringDdvI))
DRIVER_DDV_FILE = Inst(command_ddvs.CommandDriverDdvForExecutableFile, _exe_file=Iface(PathDdvI), _validators=Any_)
DRIVER_DDV_SYSTEM = Inst(command_ddvs.CommandDriverDdvForSystemProgram, _program=Iface(StringDdvI))
DRIVER_DDV = Union(DRIVER_DDV_SHELL, DRIVER_DDV_FILE, DRIVER_DDV_SYSTEM)


def driver_of(driver_ddv, driver, tcds):
    """the primitive driver of a resolved driver: same kind; command line / program / file for this test case"""
    if type(driver_ddv) is command_ddvs.CommandDriverDdvForShell:
        return type(driver) is commands.CommandDriverForShell \
            and driver._command_line == driver_ddv._command_line.value_of_any_dependency(tcds)
    if type(driver_ddv) is command_ddvs.CommandDriverDdvForSystemProgram:
        return type(driver) is commands.CommandDriverForSystemProgram \
            and driver._program == driver_ddv._program.value_of_any_dependency(tcds)
    return type(driver) is commands.CommandDriverForExecutableFile \
        and driver._executable_file is driver_ddv._exe_file.value_of_any_dependency__d(tcds)


for _cls, _shape in (('CommandDriverDdvForShell', DRIVER_DDV_SHELL), ('CommandDriverDdvForExecutableFile', DRIVER_DDV_FILE),
                     ('CommandDriverDdvForSystemProgram', DRIVER_DDV_SYSTEM)):
    M.contract('%s.commands:%s.value_of_any_dependency' % (P_DDV, _cls), inline=True,
               params=dict(self=_shape, tcds=Any_),
               ensures={'same kind of driver; its command line / program / file for this test case':
                        lambda self, tcds, result: driver_of(self, result, tcds)}, raises_only=())

COMMAND_DDV = Inst(CommandDdv, _command_driver=DRIVER_DDV, _arguments=ARGUMENTS_DDV, _validators=Any_)

M.contract(P_DDV + '.command:CommandDdv.value_of_any_dependency', inline=True,
           params=dict(self=COMMAND_DDV, tcds=Any_), ghosts=dict(j=Int),
           ensures={'the Command of the resolved driver with one argument string per resolved argument, in order':
                    lambda self, tcds, result, j:
                    type(result) is Command and driver_of(self._command_driver, result._driver, tcds)
                    and is_values_of(result._arguments, self._arguments._arguments._string_elements, tcds, j)},
           raises_only=())


class CommandDdvForProgramI(Interface):
    target_class = CommandDdv
    attrs = {'ident': Int, 'validators': ListOf(Any_)}
    methods = {'value_of_any_dependency': Method(returns=Iface(lambda: CommandPrimI),
                                                 ensures=lambda self, tcds, result: result.ident == self.ident)}


class CommandPrimI(Interface):
    target_class = Command
    attrs = {'ident': Int}


PROGRAM_DDV = Inst(ProgramDdv, _command=Iface(CommandDdvForProgramI), _stdin=ListOf(Iface(ResolvedI)),
                   _transformations=ListOf(Iface(ResolvedI)), _validators=Any_)
PROGRAM_ADV = Inst(ProgramAdv, _command=Iface(CommandPrimI), _stdin=ListOf(Iface(AdvElemI)),
                   _transformation=ListOf(Iface(AdvElemI)))

M.contract(P_DDV + '.program:ProgramDdv.value_of_any_dependency', inline=True,
           params=dict(self=PROGRAM_DDV, tcds=Any_), ghosts=dict(j=Int),
           ensures={'command, stdin parts and transformations of the resolved program, element-wise and in order':
                    lambda self, result, j:
                    type(result) is ProgramAdv and result._command.ident == self._command.ident
                    and is_resolution_of(result._stdin, self._stdin, j)
                    and is_resolution_of(result._transformation, self._transformations, j)},
           raises_only=())

M.contract(P_DDV + '.program:ProgramAdv.primitive', inline=True,
           params=dict(self=PROGRAM_ADV, environment=Any_), ghosts=dict(j=Int),
           ensures={'the Program of: the command, the stdin parts and the transformations, element-wise and in order':
                    lambda self, result, j:
                    type(result) is Program and result._command is self._command
                    and is_resolution_of(result._stdin, self._stdin, j)
                    and is_resolution_of(result._transformation, self._transformation, j)},
           raises_only=())

# --- commands with appended arguments

M.contract('exactly_lib.type_val_prims.program.command:Command.new_with_appended_arguments', inline=True,
           params=dict(self=COMMAND, tail_arguments=ARGUMENTS), ghosts=dict(j=Int),
           ensures={'same driver; own arguments first, then the tail arguments': lambda self, tail_arguments, result, j:
           type(result) is Command and result._driver is self._driver
           and len(result._arguments) == len(self._arguments) + len(tail_arguments)
           and ((not (0 <= j < len(self._arguments))) or result._arguments[j] == self._arguments[j])
           and ((not (0 <= j < len(tail_arguments)))
                or result._arguments[len(self._arguments) + j] == tail_arguments[j])},
           raises_only=())

P_CSDV = 'exactly_lib.type_val_deps.types.program.sdv.command'

M.contract(P_CSDV + ':CommandSdv.new_with_additional_arguments', inline=True,
           params=dict(self=COMMAND_SDV, additional_arguments=ARGUMENTS_SDV), ghosts=dict(j=Int),
           ensures={'same driver; own arguments (and validators) first, then the additional ones':
                    lambda self, additional_arguments, result, j:
                    type(result) is CommandSdv and result._driver is self._driver
                    and is_concat(arg_elements(result._arguments), arg_elements(self._arguments),
                                  arg_elements(additional_arguments), j)
                    and is_concat(result._arguments._validators, self._arguments._validators,
                                  additional_arguments._validators, j)},
           raises_only=())

M.contract(P_CSDV + ':CommandSdv.new_with_additional_argument_list', inline=True,
           params=dict(self=COMMAND_SDV, additional_arguments=LIST_SDV), ghosts=dict(j=Int),
           ensures={'same driver; own arguments first, then the elements of the list':
                    lambda self, additional_arguments, result, j:
                    type(result) is CommandSdv and result._driver is self._driver
                    and is_concat(arg_elements(result._arguments), arg_elements(self._arguments),
                                  additional_arguments._elements, j)},
           raises_only=())


# ============================================================================== parsing: program by reference, shell command

from exactly_lib.impls.types.program.parse import parse_with_reference_to_program, parse_shell_command
from exactly_lib.impls.types.program.command import driver_sdvs
from exactly_lib.impls.types.string_ import parse_string
from exactly_lib.symbol import symbol_syntax
from exactly_lib.section_document.element_parsers.instruction_parser_exceptions import \
    SingleInstructionInvalidArgumentException

SYMBOL_STRING = 'consume_mandatory_unquoted_string'
ARGS_PARSED = 'arguments-parsed'
REST_OF_LINE = 'consume_remaining_part_of_current_line_as_string'


class TokenParserI(Interface):
    """the token stream (C09)"""
    methods = {SYMBOL_STRING: Method(returns=Str, event=SYMBOL_STRING),
               REST_OF_LINE: Method(returns=Str, event=REST_OF_LINE),
               'consume_current_line_as_string_of_remaining_part_of_current_line': Method(returns=Str, event=REST_OF_LINE),
               'require_is_not_at_eol': Method(may_raise=(lambda interp, o: SingleInstructionInvalidArgumentException('eol'),))}


class ArgumentsParserI(Interface):
    """parse_arguments.parser(): one element per written argument (C09)"""
    methods = {'parse_from_token_parser': Method(returns=ARGUMENTS_SDV, event=ARGS_PARSED)}


M.contract('exactly_lib.symbol.symbol_syntax:is_symbol_name', trusted=True, params=dict(s=Str), returns=Bool)
M.trust('symbol_syntax.is_symbol_name(s): syntax check of a symbol name (C08)')

M.contract('exactly_lib.impls.types.program.parse.parse_with_reference_to_program:_ParseAsProgram.parse_from_token_parser',
           params=dict(self=Inst(parse_with_reference_to_program._ParseAsProgram,
                                 _consume_last_line_if_is_at_eol_after_parse=Const(False),
                                 _consume_last_line_if_is_at_eof_after_parse=Const(False),
                                 _arguments_parser=Iface(ArgumentsParserI)),
                       parser=Iface(TokenParserI)),
           returns=Any_,
           ensures={'`@ SYMBOL ARGUMENTS`: a reference to the program SYMBOL whose additional components are exactly '
                    'the written arguments (no stdin, no transformations): they are appended AFTER the referenced '
                    'program by ProgramSdvForSymbolReference.resolve': lambda result, trace:
           type(result) is ProgramSdvForSymbolReference
           and result._symbol_name == _returned(trace, SYMBOL_STRING)
           and result._accumulated_components.arguments is _returned(trace, ARGS_PARSED)
           and is_empty_seq(result._accumulated_components.stdin)
           and is_empty_seq(result._accumulated_components.transformations)},
           raises={SingleInstructionInvalidArgumentException: {}},
           raises_only=())


def _string_sdv_from_string(interp, args, kwargs):
    """assumed: parse_string.string_sdv_from_string(s) denotes the string written in s, symbol references
    substituted (C09); ghost: g_source = s"""
    r = new_opaque(interp, StringSdvOfTextI, 'string-sdv')
    r._pv_attrs['g_source'] = args[0]
    return r


class StringSdvOfTextI(Interface):
    attrs = {'g_source': Str, 'references': Any_}


M.model(parse_string.string_sdv_from_string, _string_sdv_from_string)
M.trust('parse_string.string_sdv_from_string(text) gives the StringSdv denoted by `text` (symbol references in it are '
        'substituted, nothing else is interpreted: C09)')

SHELL_PARSER = Inst(parse_shell_command._ParseAsCommand, _consume_last_line_if_is_at_eol_after_parse=Bool,
                    _consume_last_line_if_is_at_eof_after_parse=Bool)


def is_shell_command_of_rest_of_line(command_sdv, trace):
    return type(command_sdv) is CommandSdv \
        and type(command_sdv._driver) is driver_sdvs.CommandDriverSdvForShell \
        and command_sdv._driver._command_line.g_source == _returned(trace, REST_OF_LINE) \
        and is_empty_seq(arg_elements(command_sdv._arguments))


M.contract('exactly_lib.impls.types.program.parse.parse_shell_command:_ParseAsCommand.parse_from_token_parser',
           inline=True,        # (its clause speaks about ghost events: call sites interpret the body)
           params=dict(self=SHELL_PARSER, parser=Iface(TokenParserI)), returns=Any_,
           ensures={'`$ COMMAND LINE`: the rest of the line, VERBATIM, AS ONE STRING, is the shell command line; no '
                    'arguments': lambda result, trace: is_shell_command_of_rest_of_line(result, trace)},
           raises={SingleInstructionInvalidArgumentException: {}},
           raises_only=())

M.contract('exactly_lib.impls.types.program.parse.parse_shell_command:_ParseAsProgram.parse_from_token_parser',
           params=dict(self=Inst(parse_shell_command._ParseAsProgram,
                                 _consume_last_line_if_is_at_eol_after_parse=Const(False),
                                 _consume_last_line_if_is_at_eof_after_parse=Bool, _command_parser=SHELL_PARSER),
                       parser=Iface(TokenParserI)), returns=Any_,
           ensures={'a program of the shell command with nothing accumulated': lambda result, trace:
           type(result) is ProgramSdvForCommand and is_shell_command_of_rest_of_line(result._command, trace)
           and is_empty_seq(result._accumulated_components.stdin)
           and is_empty_seq(arg_elements(result._accumulated_components.arguments))
           and is_empty_seq(result._accumulated_components.transformations)},
           raises={SingleInstructionInvalidArgumentException: {}},
           raises_only=())


from exactly_lib.impls.types.program.parse import parse_program

COMMAND_AND_ARGUMENTS = 'parse_default_or_optional_command'
STDIN_PARSED = 'stdin-option-parsed'
TRANSFORMATION_PARSED = 'transformation-option-parsed'


class ProgramTokenParserI(Interface):
    """the token parser, where it chooses and runs the parser of the command-and-arguments part: that part is a
    program of one of the ProgramSdv classes, for which the induction hypothesis (a) was proved above"""
    methods = {COMMAND_AND_ARGUMENTS: Method(returns=Iface(AnyProgramSdvI), event=COMMAND_AND_ARGUMENTS)}


class OptionalStdinParserI(Interface):
    methods = {'parse_from_token_parser': Method(returns=Opt(Iface(ElementI)), event=STDIN_PARSED)}


class OptionalTransformationParserI(Interface):
    methods = {'parse_from_token_parser': Method(returns=Opt(Iface(ElementI)), event=TRANSFORMATION_PARSED)}


def _opt_singleton(x):
    return [] if x is None else [x]


M.contract('exactly_lib.impls.types.program.parse.parse_program:_Parser.parse_from_token_parser',
           params=dict(self=Inst(parse_program._Parser, _consume_last_line_if_is_at_eol_after_parse=Const(False),
                                 _consume_last_line_if_is_at_eof_after_parse=Const(False),
                                 _string_transformer_parser=Iface(OptionalTransformationParserI),
                                 _string_source_parser=Iface(OptionalStdinParserI),
                                 _parser_of_executable_file=Iface(ArgumentsParserI), _program_variant_setups=Any_),
                       parser=Iface(ProgramTokenParserI)),
           ghosts=dict(j=Int), returns=Any_,
           ensures={'PROGRAM = COMMAND-AND-ARGUMENTS [-stdin S] [-transformed-by T]: the stdin part and the '
                    'transformation are appended AFTER what the command part (possibly a program symbol) already has; '
                    'arguments unchanged': lambda result, trace, j:
           same(result.g_driver, _returned(trace, COMMAND_AND_ARGUMENTS).g_driver)
           and is_same_seq(result.g_args, _returned(trace, COMMAND_AND_ARGUMENTS).g_args, j)
           and is_concat(result.g_stdin, _returned(trace, COMMAND_AND_ARGUMENTS).g_stdin,
                         _opt_singleton(_returned(trace, STDIN_PARSED)), j)
           and is_concat(result.g_transformations, _returned(trace, COMMAND_AND_ARGUMENTS).g_transformations,
                         _opt_singleton(_returned(trace, TRANSFORMATION_PARSED)), j)},
           raises_only=())


@M.bounded('arguments-accumulation')
def _arguments_accumulation(ctx):
    """parse_arguments._Parser.parse_from_token_parser folds the parsed argument elements with
    `functools.reduce(_accumulate, elements, ArgumentsSdv.empty())` (a flatten of a list of lists: outside the
    quantifier-free list algebra of the engine).  The real method is executed on EVERY sequence of up to 4 parsed
    elements, each an ArgumentsSdv with 0..2 list elements and 0..1 validators (unique marker objects), and compared
    with the independent definition "all list elements, then all validators, in written order".  NOT counted as
    proved.  (ArgumentsSdv.new_accumulated itself, the step of the fold, IS proved above.)"""
    import itertools as it
    from exactly_lib.impls.types.program.parse import parse_arguments

    class Marker:
        def __init__(self, name):
            self.name = name

        def __repr__(self):
            return self.name

    class StubElementsParser:
        def __init__(self, elements):
            self.elements = elements

        def parse(self, token_parser):
            return self.elements

    shapes = [(n, v) for n in range(3) for v in range(2)]
    cases, failures = 0, []
    for n in range(5):
        for combo in it.product(shapes, repeat=n):
            cases += 1
            parsed, exp_elements, exp_validators = [], [], []
            for i, (ne, nv) in enumerate(combo):
                es = [Marker('e%d.%d' % (i, k)) for k in range(ne)]
                vs = [Marker('v%d.%d' % (i, k)) for k in range(nv)]
                parsed.append(ArgumentsSdv(ListSdv(es), tuple(vs)))
                exp_elements += es
                exp_validators += vs
            p = object.__new__(parse_arguments._Parser)
            p._elements_parser = StubElementsParser(parsed)
            r = p.parse_from_token_parser(None)
            got_e, got_v = list(r._arguments._elements), list(r._validators)
            if [id(x) for x in got_e] != [id(x) for x in exp_elements] or \
                    [id(x) for x in got_v] != [id(x) for x in exp_validators]:
                failures.append({'input': repr(combo), 'expected': repr((exp_elements, exp_validators)),
                                 'actual': repr((got_e, got_v))})
    ctx.bounded_result('parse_arguments._Parser.parse_from_token_parser (fold of the parsed argument elements)',
                       bound='<= 4 parsed elements, each with 0..2 list elements and 0..1 validators',
                       cases=cases, exhaustive=True, failures=failures,
                       note='independent definition: concatenation in written order')


# --- act/execute: hard error of the ATC (cannot start the process, TIMEOUT) => HARD_ERROR of the step

FAILURE_CON = 'failure_con'


class FailureConI(Interface):
    methods = {'__call__': Method(returns=Any_, event=FAILURE_CON, params=['status', 'failure_details'])}


def _run_action(action):
    try:
        action()
        return None
    except PhaseStepFailureException as ex:
        return ex.failure


def act_execute_step(atc_executor, failure_con):
    """Scenario: what the partial executor does with the step act/execute: it calls the action it is given"""
    action = atc_executor.execute(failure_con)
    return _run_action(action)


M.contract('contracts.C10_process:act_execute_step', props=BOTH,
           params=dict(atc_executor=ATC_EXECUTOR, failure_con=Iface(FailureConI)),
           ensures={
               'an exit code => the step succeeds': lambda result, trace:
               (not atc_results(trace)[0][0] is not None)
               or (result is None and [e for e in trace if e[0] == FAILURE_CON] == []),
               'a hard error of the ATC (process cannot be started, or TIMED OUT) => the step fails with HARD_ERROR':
                   lambda result, trace:
                   (not atc_results(trace)[0][0] is None)
                   or (result is [e[2] for e in trace if e[0] == FAILURE_CON + ':returned'][0]
                       and [e[2][0] for e in trace if e[0] == FAILURE_CON] == [ExecutionFailureStatus.HARD_ERROR]),
           }, raises_only=())


@M.check('result-files')
def _result_files(ctx):
    """the files the ATC executor writes (sds.result.stdout_file / stderr_file / exitcode_file) are the files the
    stdout / stderr / exit-code assertions read by default (finite: evaluated on the real path objects)"""
    import pathlib as pl
    from exactly_lib.tcfs.hds import HomeDs
    from exactly_lib.tcfs.sds import SandboxDs
    from exactly_lib.tcfs.tcds import TestCaseDs
    from exactly_lib.tcfs.path_relativity import RelOptionType
    from exactly_lib.type_val_deps.types.path import path_sdvs, path_ddvs
    from exactly_lib.util.process_execution import process_output_files as pof
    from exactly_lib.util.symbol_table import empty_symbol_table
    from exactly_lib.impls.instructions.assert_.process_output.impl import out_err_file
    sds = SandboxDs('/sds')
    tcds = TestCaseDs(HomeDs(pl.Path('/hds/case'), pl.Path('/hds/act')), sds)
    for f, written in ((pof.ProcOutputFile.STDOUT, sds.result.stdout_file), (pof.ProcOutputFile.STDERR, sds.result.stderr_file)):
        constructor = out_err_file.Parser._default(f)
        # the path SDV the default (no -from PROGRAM) assertion reads
        path_sdv = [v for v in vars(constructor).values() if hasattr(v, 'resolve')][0]
        read = path_sdv.resolve(empty_symbol_table()).value_of_any_dependency(tcds)
        ctx.obligation('the %s assertion reads the file the ATC executor wrote its %s to' % (f.name.lower(), f.name.lower()),
                       read == written, 'enumeration', detail={'read': str(read), 'written': str(written)})
    from exactly_lib.impls.instructions.assert_.process_output.impl.exit_code import getter_from_atc as g
    ctx.obligation('the exit-code assertion reads sds.result.exitcode_file (contract of _get_exit_code) and the ATC '
                   'executor writes tcds.sds.result.exitcode_file (contract of _store_exit_code): same property',
                   g._ExitCodeGetter(tcds)._sds is tcds.sds, 'enumeration')


# Assumed summaries of this module that follow from contracts PROVED for another property (Module.implied_by, ENGINE.md):
# the refinement obligations are generated by this property's check and the proved contract is re-proved here.
M.implied_by('exactly_lib.symbol.symbol_syntax:is_symbol_name', 'C09')
