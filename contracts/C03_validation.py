"""C03 -- validation precedes execution: an invalid test case has no effects.

Two parts (see notes/C03.md):

 A  corollary of C01: the protocol clause `invalid case (C03)` of partial execution -- if act parse or the
    validation of symbols / pre-sds validation of *any* phase (up to the last instruction of [cleanup]) fails,
    only steps of that kind have run: no sandbox, no main step, the action to check is not started -- and
    the symbol command, which runs conf/main, act parse and symbol validation and nothing else;

 B  the processing layer: the whole file is read, preprocessed and parsed before anything is executed; an
    error of stage k gives the access error of that stage and no later stage -- in particular no execution.

What each instruction's validate_pre_sds *detects* is per-instruction semantics and outside this module; the
claim is: if a validator (or the parser) reports, nothing has been or will be executed.
"""
from pyvc.api import (Module, Interface, Method, Iface, Inst, Int, Bool, Str, Opt, OneOf, Const, Union, ListOf,
                      FixedList, Any_, EnumOf, Custom, Dependent)
from pyvc.interp import ArbitraryException
from contracts.common import implies, iff, forall_range

from exactly_lib.processing import processing_utils, processors, test_case_processing as tcp
from exactly_lib.processing.test_case_processing import (AccessorError, ProcessError, AccessErrorType, Status,
                                                          ErrorInfo, TestCaseFileReference)
from exactly_lib.section_document import exceptions as sd_exceptions
from exactly_lib.execution.result import PhaseStepFailureException

from contracts import C01_protocol as c01
from contracts import C02_outcome as c02

M = Module('C03')

P_PU = 'exactly_lib.processing.processing_utils'
P_PR = 'exactly_lib.processing.processors'

# ====================================================================================== A: corollary of C01
# The contracts of C01 that carry the clause (and everything it rests on) are also C03's: the check of C03
# re-proves them on the current tree.
_SHARED = {
    c01.P_EX + ':_PartialExecutor.execute', c01.P_EX + ':execute', c01.P_EX + ':parse_atc_and_validate_symbols',
    c01.P_SV + ':SymbolsValidator.validate', c01.P_SV + ':SymbolsValidator._validate_atc',
    c01.P_SV + ':ValidateSymbolsExecutor.apply', c01.P_AH + ':ActHelper.parse',
    c01.P_EX + ':_PartialExecutor._act__validate_pre_sds', c01.P_EX + ':_PartialExecutor._setup_pre_sds_environment',
    c01.P_PSE + ':run_instructions_phase_step', c01.P_PSE + ':execute_phase', c01.P_PSE + ':execute_phase_prim',
    c01.P_SIE + ':execute_element', c01.P_FEX + ':execute', c01.P_FEX + ':execute_configuration_phase',
}
_SHARED |= {'%s:_PartialExecutor.%s' % (c01.P_EX, m) for m in c01.INSTRUCTION_STEPS if m.endswith('validate_pre_sds')}
_SHARED |= {'%s:%s.apply' % (c01.P_PSX, cls.__name__) for cls in c01.EXECUTORS if 'ValidatePreSds' in cls.__name__}
for _c in c01.M.contracts:
    if _c.qname in _SHARED:
        _c.props = tuple(sorted(set(_c.props) | {'C03'}))
assert _SHARED <= {c.qname for c in c01.M.contracts}, _SHARED - {c.qname for c in c01.M.contracts}

S = c01.S
steps_of, failed = c01.steps_of, c01.failed

# ----- the symbol command: Resolver._from_test_case
from exactly_lib.cli.program_modes.symbol.impl import resolve as sym_resolve

P_SR = 'exactly_lib.cli.program_modes.symbol.impl.resolve'

# the public wrapper in partial_execution/execution.py: transparent
M.contract('exactly_lib.execution.partial_execution.execution:parse_atc_and_validate_symbols',
           params=dict(actor=Inst(c01.NameAndValue, _tuple=[Str, Iface(c01.ActorI)]),
                       predefined_symbols=Iface(c01.SymbolTableI), test_case=c01.TEST_CASE), inline=True,
           ensures={'act parse, then symbol validation of all phases, nothing else': lambda trace:
           [s[0] for s in steps_of(trace)] == c01.CANONICAL[:6]},
           raises={PhaseStepFailureException: {'ensures': lambda exc, trace:
           c01.in_documented_order(steps_of(trace)) and len(steps_of(trace)) <= 6 and exc is steps_of(trace)[-1][3]}},
           raises_only=())


class FullTestCaseI(Interface):
    """test_case_doc.TestCase: its six phases; `as_test_case_of_instructions` is a projection"""
    attrs = {'configuration_phase': c01.PHASE, 'setup_phase': c01.PHASE, 'act_phase': c01.PHASE,
             'before_assert_phase': c01.PHASE, 'assert_phase': c01.PHASE, 'cleanup_phase': c01.PHASE}
    methods = {'as_test_case_of_instructions': Method(returns=Any_)}


class ConfBuilderForSymbolsI(Interface):
    attrs = {'actor': Inst(c01.NameAndValue, _tuple=[Str, Iface(c01.ActorI)])}


def _only_conf_parse_and_symbol_validation(trace):
    """what the symbol command runs: conf/main, then act parse and the validation of symbols -- no sandbox,
    no validate_pre_sds, no main step of a phase after [conf], no step of the action to check after parse"""
    starts = [e for e in trace if not e[0].endswith(':returned') and not e[0].endswith(':raised')]
    return starts[0][0] == 'conf-main' \
        and all(e[0] in ('act-parse', 'run-step', '_validate_atc') for e in starts[1:]) \
        and [c01.step_of(e) for e in starts[1:]] == c01.CANONICAL[:len(starts) - 1] and len(starts) <= 7


M.contract(P_SR + ':Resolver._from_test_case',
           params=dict(self=Inst(sym_resolve.ResolverForTestCase, _predefined_symbols=Iface(c01.SymbolTableI)),
                       test_case=Iface(FullTestCaseI), conf_phase_configuration_builder=Iface(ConfBuilderForSymbolsI)),
           ensures={
               'the symbol command executes nothing but conf/main, act parse and symbol validation':
                   lambda trace: _only_conf_parse_and_symbol_validation(trace) and len(steps_of(trace)) == 6
                   and not any(failed(s) for s in steps_of(trace)),
           },
           raises={PhaseStepFailureException: {'ensures': lambda exc, trace:
           _only_conf_parse_and_symbol_validation(trace)
           and (exc.failure is trace[1][2] if len(trace) == 2 else exc is trace[-1][2])}},
           raises_only=())


# ====================================================================================== B: the processing layer

def _mk_process_error(interp, o):
    e = ProcessError.__new__(ProcessError)
    e._error_info = Any_.make(interp, 'process_error.error_info')
    return e


def _mk_accessor_error(interp, o):
    e = AccessorError.__new__(AccessorError)
    e._error = EnumOf(AccessErrorType).make(interp, 'accessor_error.error')
    e._error_info = Any_.make(interp, 'accessor_error.error_info')
    return e


def _mk_arbitrary(interp, o):
    return ArbitraryException()


class SourceReaderI(Interface):
    target_class = processing_utils.SourceReader
    methods = {'apply': Method(returns=Str, may_raise=(_mk_process_error, _mk_arbitrary), event='read')}


class PreprocessorI(Interface):
    methods = {'apply': Method(returns=Str, may_raise=(_mk_process_error, _mk_arbitrary), event='preprocess')}


class ParserI(Interface):
    target_class = processing_utils.Parser
    methods = {'apply': Method(returns=Any_, may_raise=(_mk_process_error, _mk_accessor_error, _mk_arbitrary),
                               event='parse')}


class TransformerI(Interface):
    methods = {'transform': Method(returns=Any_, may_raise=(_mk_arbitrary,), event='transform')}


FILE_REF = Inst(TestCaseFileReference, _TestCaseFileReference__file_path=Any_,
                _TestCaseFileReference__path_relativity_root_dir=Any_)
ACCESSOR = Inst(processing_utils.AccessorFromParts, _source_reader=Iface(SourceReaderI),
                _pre_processor=Iface(PreprocessorI), _parser=Iface(ParserI), _transformer=Iface(TransformerI))

STAGES = ('read', 'preprocess', 'parse', 'transform')
ERROR_OF_STAGE = {'read': AccessErrorType.FILE_ACCESS_ERROR, 'preprocess': AccessErrorType.PRE_PROCESS_ERROR,
                  'parse': AccessErrorType.SYNTAX_ERROR}


def stage_calls(trace):
    return [e for e in trace if e[0] in STAGES]


def stages_in_order(trace):
    return [e[0] for e in stage_calls(trace)] == list(STAGES[:len(stage_calls(trace))])


def outcome_of(trace, name):
    e = [e for e in trace if e[0] in (name + ':returned', name + ':raised')][0]
    return e[0][len(name) + 1:], e[2]


def data_flows(self, test_case, trace):
    """each stage works on what the previous one produced, for the file of the test case"""
    cs = stage_calls(trace)
    ok = cs[0][1] is self._source_reader and cs[0][2] == (test_case.file_path,)
    if len(cs) > 1:
        ok = ok and cs[1][1] is self._pre_processor and cs[1][2] == (test_case.file_path, outcome_of(trace, 'read')[1])
    if len(cs) > 2:
        ok = ok and cs[2][1] is self._parser and cs[2][2] == (test_case, outcome_of(trace, 'preprocess')[1])
    if len(cs) > 3:
        ok = ok and cs[3][1] is self._transformer and cs[3][2] == (outcome_of(trace, 'parse')[1],)
    return ok


M.contract(P_PU + ':AccessorFromParts.apply', params=dict(self=ACCESSOR, test_case=FILE_REF),
           returns=Any_, event='accessor.apply',
           ensures={
               'read, preprocess, parse, transform: all four, in that order, each on the output of the one before':
                   lambda self, test_case, trace: [e[0] for e in stage_calls(trace)] == list(STAGES)
                   and data_flows(self, test_case, trace),
               'the transformed test case': lambda result, trace: outcome_of(trace, 'transform') == ('returned', result),
           },
           raises={
               AccessorError: {
                   'shape': Inst(AccessorError, _error=EnumOf(AccessErrorType), _error_info=Any_),
                   'ensures': lambda self, test_case, exc, trace:
                   # the stage that failed is the last one started; its error type; no later stage runs
                   stages_in_order(trace) and data_flows(self, test_case, trace)
                   and stage_calls(trace)[-1][0] != 'transform'
                   and outcome_of(trace, stage_calls(trace)[-1][0])[0] == 'raised'
                   and (exc is outcome_of(trace, 'parse')[1]
                        if stage_calls(trace)[-1][0] == 'parse'
                           and isinstance(outcome_of(trace, 'parse')[1], AccessorError)
                        else (isinstance(outcome_of(trace, stage_calls(trace)[-1][0])[1], ProcessError)
                              and exc.error is ERROR_OF_STAGE[stage_calls(trace)[-1][0]]
                              and exc.error_info is outcome_of(trace, stage_calls(trace)[-1][0])[1].error_info))},
               ArbitraryException: {'ensures': lambda self, test_case, exc, trace:
               stages_in_order(trace) and outcome_of(trace, stage_calls(trace)[-1][0]) == ('raised', exc)},
           },
           raises_only=())


class AccessorI(Interface):
    target_class = tcp.Accessor
    methods = {'apply': Method(returns=Any_, may_raise=(_mk_accessor_error, _mk_arbitrary), event='accessor.apply')}


class ExecutorI(Interface):
    target_class = processing_utils.Executor
    methods = {'apply': Method(returns=c02.FULL_EXE_RESULT, may_raise=(_mk_arbitrary,), event='executor.apply')}


# assumed: describing an exception for the error message does not raise
from exactly_lib.test_case.error_description import ErrorDescription


class ErrorDescriptionI(Interface):
    target_class = ErrorDescription


M.contract('exactly_lib.test_case.error_description:of_exception', trusted=True,
           params=dict(exception=Any_, message=Any_), returns=Iface(ErrorDescriptionI))
M.trust('error_description.of_exception builds a description object (text of error messages is outside the property)')


def executions(trace):
    return [e for e in trace if e[0] == 'executor.apply']


M.contract(P_PU + ':ProcessorFromAccessorAndExecutor.apply',
           params=dict(self=Inst(processing_utils.ProcessorFromAccessorAndExecutor, _accessor=Iface(AccessorI),
                                 _executor=Iface(ExecutorI)), test_case=FILE_REF),
           ensures={
               'the test case is executed iff the accessor delivered it -- once, and it is that test case':
                   lambda self, test_case, trace:
                   executions(trace) == ([('executor.apply', self._executor,
                                           (test_case.file_path, outcome_of(trace, 'accessor.apply')[1]))]
                                         if outcome_of(trace, 'accessor.apply')[0] == 'returned' else [])
                   and trace[0] == ('accessor.apply', self._accessor, (test_case,)),
               'access error: reported with its type, nothing executed': lambda result, trace:
               not isinstance(outcome_of(trace, 'accessor.apply')[1], AccessorError)
               or (result.status is Status.ACCESS_ERROR
                   and result.access_error_type is outcome_of(trace, 'accessor.apply')[1].error
                   and result.error_info is outcome_of(trace, 'accessor.apply')[1].error_info
                   and result.execution_result is None),
               'executed: the result of the execution': lambda result, trace:
               executions(trace) == [] or outcome_of(trace, 'executor.apply')[0] == 'raised'
               or (result.status is Status.EXECUTED and result.execution_result is outcome_of(trace, 'executor.apply')[1]),
               'anything else is an internal error': lambda result, trace:
               not isinstance([e for e in trace if e[0].endswith(':raised')][-1:] and
                              [e for e in trace if e[0].endswith(':raised')][-1][2], ArbitraryException)
               or result.status is Status.INTERNAL_ERROR,
               'the result is well formed (C02)': lambda result: c02.result_is_well_formed(result),
           },
           raises_only=())

# ----- the parts: source reader, parser, executor

from exactly_lib.processing.parse import test_case_parser
from exactly_lib.section_document.parse_source import ParseSource


def _mk_file_source_error(interp, o):
    e = sd_exceptions.FileSourceError.__new__(sd_exceptions.FileSourceError)
    e._message = Str.make(interp, 'parse_error.message')
    e._location_path = Any_.make(interp, 'parse_error.location_path')
    e._source = Any_.make(interp, 'parse_error.source')
    e._maybe_section_name = Opt(Str).make(interp, 'parse_error.section')
    return e


def _mk_file_access_error(interp, o):
    e = sd_exceptions.FileAccessError.__new__(sd_exceptions.FileAccessError)
    e._message = Str.make(interp, 'parse_error.message')
    e._location_path = Any_.make(interp, 'parse_error.location_path')
    e._erroneous_path = Any_.make(interp, 'parse_error.erroneous_path')
    e._section_name = Opt(Str).make(interp, 'parse_error.section')
    return e


class FileParserI(Interface):
    """the document parser of a test case (C07's subject): returns the test case of the whole source, or
    raises a ParseError (FileSourceError: syntax, FileAccessError: an included file), or anything else"""
    methods = {'apply': Method(returns=Any_, may_raise=(_mk_file_source_error, _mk_file_access_error, _mk_arbitrary),
                               event='file_parser.apply')}


M.contract('exactly_lib.processing.parse.test_case_parser:new_parser', trusted=True,
           params=dict(parsing_setup=Any_), returns=Iface(FileParserI))
M.trust('test_case_parser.new_parser builds the document parser from the parsing setup and does not raise (C07)')

# assumed: building the objects of an error message (plain constructors)
for _q in ('exactly_lib.test_case.error_description:syntax_error_of_message',
           'exactly_lib.test_case.error_description:file_access_error_of_message'):
    M.contract(_q, trusted=True, params=dict(message=Any_), returns=Iface(ErrorDescriptionI))
M.contract('exactly_lib.section_document.source_location:source_location_path_of_non_empty_location_path',
           trusted=True, params=dict(location_path=Any_), returns=Any_)
M.trust('error_description.syntax_error_of_message / file_access_error_of_message and '
        'source_location_path_of_non_empty_location_path build message objects and do not raise')

PARSER = Inst(processors._Parser, _test_case_parsing_setup=Any_)


def _parse_calls(trace):
    return [e for e in trace if e[0] == 'file_parser.apply']


def _parses_the_whole_source_once(test_case, test_case_plain_source, trace):
    cs = _parse_calls(trace)
    return len(cs) == 1 and cs[0][2][0] is test_case and type(cs[0][2][1]) is ParseSource \
        and cs[0][2][1].source_string == test_case_plain_source and cs[0][2][1].column_index == 0


M.contract(P_PR + ':_Parser.apply', params=dict(self=PARSER, test_case=FILE_REF, test_case_plain_source=Str),
           ensures={'the test case that the document parser made of the whole source':
                    lambda test_case, test_case_plain_source, result, trace:
                    _parses_the_whole_source_once(test_case, test_case_plain_source, trace)
                    and outcome_of(trace, 'file_parser.apply') == ('returned', result)},
           raises={
               ProcessError: {'ensures': lambda test_case, test_case_plain_source, exc, trace:
               # a syntax error anywhere in the file (=> SYNTAX_ERROR by AccessorFromParts)
               _parses_the_whole_source_once(test_case, test_case_plain_source, trace)
               and isinstance(outcome_of(trace, 'file_parser.apply')[1], sd_exceptions.FileSourceError)},
               AccessorError: {'ensures': lambda test_case, test_case_plain_source, exc, trace:
               _parses_the_whole_source_once(test_case, test_case_plain_source, trace)
               and isinstance(outcome_of(trace, 'file_parser.apply')[1], sd_exceptions.FileAccessError)
               and exc.error is AccessErrorType.FILE_ACCESS_ERROR},
               ArbitraryException: {'ensures': lambda exc, trace:
               outcome_of(trace, 'file_parser.apply') == ('raised', exc)},
           },
           raises_only=())


# ----- the executor part: exactly one full execution of the parsed test case

class PathI(Interface):
    """pathlib.Path of the test case file"""
    attrs = {'parent': Iface(lambda: PathI)}
    methods = {'resolve': Method(returns=Iface(lambda: PathI), may_raise=(_mk_arbitrary,))}


class ActPhaseSetupI(Interface):
    attrs = {'actor_nav': Any_}


class ExeConfI(Interface):
    """ExecutionConfiguration as given to the executor: copied for each execution"""
    attrs = {'default_environ_getter': Any_, 'environ': Opt(Iface(c01.EnvironI)), 'timeout_in_seconds': Opt(Int),
             'os_services': Any_, 'sds_root_dir_resolver': Any_, 'mem_buff_size': Int,
             'predefined_symbols': Iface(c01.SymbolTableI), 'exe_atc_and_skip_assertions': Opt(Any_)}


M.contract(P_PR + ':_Executor.apply',
           params=dict(self=Inst(processors._Executor, default_act_phase_setup=Iface(ActPhaseSetupI),
                                 _is_keep_sandbox=Bool, _exe_conf=Iface(ExeConfI)),
                       test_case_file_path=Iface(PathI), test_case=c01.FULL_TEST_CASE),
           returns=c02.FULL_EXE_RESULT,
           ensures={'one full execution, of the given test case; its result': lambda self, test_case, result, trace:
           [e[0] for e in trace if e[0].startswith('full-execution')] == ['full-execution', 'full-execution:returned']
           and [e for e in trace if e[0] == 'full-execution'][0][1]['test_case'] is test_case
           and [e for e in trace if e[0] == 'full-execution'][0][1]['is_keep_sandbox'] is self._is_keep_sandbox
           and [e for e in trace if e[0] == 'full-execution:returned'][0][2] is result},
           raises={OSError: {}, ArbitraryException: {}},
           raises_only=())


# ----- the source reader

def _mk_os_error(interp, o):
    return OSError()


class FileI(Interface):
    methods = {'read': Method(returns=Str, may_raise=(_mk_os_error, _mk_arbitrary), event='file.read')}


class OpenFileI(Interface):
    """what Path.open() returns: a context manager that gives the file and closes it"""
    methods = {'__enter__': Method(returns=Iface(FileI)), '__exit__': Method(returns=Const(False), event='file.close')}


class FilePathI(Interface):
    methods = {'open': Method(returns=Iface(OpenFileI), may_raise=(_mk_os_error, _mk_arbitrary), event='path.open')}


M.contract(P_PR + ':_SourceReader.apply',
           params=dict(self=Inst(processors._SourceReader), test_case_file_path=Iface(FilePathI)), returns=Str,
           ensures={'the contents of the file': lambda test_case_file_path, result, trace:
           trace[0] == ('path.open', test_case_file_path, ()) and outcome_of(trace, 'file.read') == ('returned', result)
           and len([e for e in trace if e[0] == 'file.close']) == 1},
           raises={
               ProcessError: {'ensures': lambda exc, trace:
               # the file cannot be opened or read (=> FILE_ACCESS_ERROR by AccessorFromParts)
               isinstance([e for e in trace if e[0].endswith(':raised')][0][2], OSError)},
               ArbitraryException: {},
           },
           raises_only=())


# ====================================================================================== generic validator combinators
# "first error wins; pre-sds validation runs the pre-sds part of every component, in order, and nothing of the
# post-sds part" -- the combinators instructions build their validate_pre_sds from.
from pyvc.interp import PyRaise
from pyvc.values import wrap as _wrap
from exactly_lib.type_val_deps.dep_variants.ddv import ddv_validators, ddv_validation
from exactly_lib.type_val_deps.dep_variants.sdv import sdv_validation
from exactly_lib.type_val_deps.validation_step import ValidationStep
from exactly_lib.impls import svh_validators
from exactly_lib.impls.exception import svh_exception

P_DV = 'exactly_lib.type_val_deps.dep_variants.ddv.ddv_validators'
P_DVN = 'exactly_lib.type_val_deps.dep_variants.ddv.ddv_validation'
P_SVN = 'exactly_lib.type_val_deps.dep_variants.sdv.sdv_validation'
P_SVH = 'exactly_lib.impls.svh_validators'

# ghost monitor of one run of a conjunction (state in `ghost`):
#   validators  the components;  step  'pre' / 'post': the validation step that is being run
#   last        index of the component validated last (-1: none yet)
#   error       the first error message (None: none yet) -- after an error no component may be validated


def monitor_accepts_validation(ghost, idx):
    return ghost['error'] is None and idx == ghost['last'] + 1


def _validate_model(step):
    def model(interp, self, args, kwargs):
        st = interp.st
        fn = interp.current_function_name()
        g = st.ghost
        if 'validators' in g:
            if g['step'] != step:
                st.oblige(fn + ' : monitor[%s-sds validation runs only the %s-sds part of its components]'
                          % (g['step'], g['step']), False, {'kind': 'monitor'})
                raise PyRaise(AssertionError('monitor'))
            idx = getattr(self, '_pv_index', ())
            if len(idx) != 1 or not self._pv_uid.startswith(g['validators'].uid + '[]'):
                st.oblige(fn + ' : monitor[only components are validated]', False, {'kind': 'monitor'})
                raise PyRaise(AssertionError('monitor'))
            ok = interp.truth(interp.call(monitor_accepts_validation, [g, _wrap(idx[0])], {}))
            st.oblige(fn + ' : monitor[components in order, none skipped, none after the first error]', ok,
                      {'kind': 'monitor'})
            st.assume(ok)
            g['last'] = _wrap(idx[0])
        st.emit('validate-' + step, self, tuple(args))
        k = st.choose(3)
        if k == 0:
            st.emit('validate-%s:returned' % step, self, None)
            return None
        if k == 1:
            r = Any_.make(interp, 'error_message')
            g['error'] = r
            st.emit('validate-%s:returned' % step, self, r)
            return r
        exc = ArbitraryException()
        g['error'] = exc
        st.emit('validate-%s:raised' % step, self, exc)
        raise PyRaise(exc)

    return model


class ValidatorI(Interface):
    """DdvValidator / SdvValidator: each part gives None or an error message (or raises)"""
    methods = {'validate_pre_sds_if_applicable': Method(model=_validate_model('pre')),
               'validate_post_sds_if_applicable': Method(model=_validate_model('post'))}


def _conjunction_start(step):
    def setup(interp, args, ghosts):
        g = interp.st.ghost
        g['validators'] = args['self'].validators
        g['step'] = step
        g['last'] = -1
        g['error'] = None
        return None

    return setup


for _qcls, _cls in ((P_DV + ':AndValidator', ddv_validators.AndValidator),
                    (P_SVN + ':AndSdvValidator', sdv_validation.AndSdvValidator)):
    for _method, _step in (('validate_pre_sds_if_applicable', 'pre'), ('validate_post_sds_if_applicable', 'post')):
        M.contract('%s.%s' % (_qcls, _method),
                   params=dict(self=Inst(_cls, validators=ListOf(Iface(ValidatorI))), hds=Any_, tcds=Any_,
                               environment=Any_),
                   setup=_conjunction_start(_step), returns=Opt(Any_),
                   ensures={
                       'None: every component validated (its part of this step only), in order, none failed':
                           lambda self, result, ghost:
                           result is not None or (ghost['error'] is None and ghost['last'] == len(self.validators) - 1),
                       'error: the first one; no component is validated after it': lambda result, ghost:
                       result is None or result is ghost['error'],
                   },
                   raises={ArbitraryException: {'ensures': lambda exc, ghost: exc is ghost['error']}},
                   raises_only=())
        M.loop('%s.%s' % (_qcls, _method), 0,
               invariant=lambda _i, ghost: ghost['error'] is None and ghost['last'] == _i - 1,
               modifies={'validator': 'local', 'result': 'local', 'ghost:last': Int})

CONSTANT_DDV = Inst(ddv_validation.ConstantDdvValidator, _pre_sds_result=Opt(Any_), _post_sds_result=Opt(Any_))

for _q, _empty in ((P_DV + ':all_of', ddv_validation.ConstantDdvValidator),
                   (P_SVN + ':all_of', sdv_validation.ConstantSuccessSdvValidator)):
    M.contract(_q, params=dict(validators=Union(FixedList(), FixedList(Iface(ValidatorI)),
                                                FixedList(Iface(ValidatorI), Iface(ValidatorI)),
                                                ListOf(Iface(ValidatorI), min_len=2))),
               ghosts=dict(and_class=Const(ddv_validators.AndValidator if 'ddv' in _q else sdv_validation.AndSdvValidator),
                           empty_class=Const(_empty)),
               inline=True,
               ensures={'success if empty, the validator if one, else the conjunction of exactly these':
                        lambda validators, and_class, empty_class, result:
                        (type(result) is empty_class and result.validate_pre_sds_if_applicable(None) is None
                         and result.validate_post_sds_if_applicable(None) is None) if len(validators) == 0 else
                        (result is validators[0] if len(validators) == 1 else
                         (type(result) is and_class and result.validators is validators))},
               raises_only=())


# ----- single-component adapters: each runs exactly the corresponding part of what it wraps

def _calls(trace, step):
    return [e for e in trace if e[0] == 'validate-' + step]


def _all_validation_calls(trace):
    return [e for e in trace if e[0] in ('validate-pre', 'validate-post')]


def _outcome(trace, step):
    e = [e for e in trace if e[0] in ('validate-%s:returned' % step, 'validate-%s:raised' % step)][0]
    return e[0].rpartition(':')[2], e[2]


class PathEnvI(Interface):
    """PathResolvingEnvironment(PreSds / PostSds / PreOrPostSds)"""
    attrs = {'symbols': Any_, 'hds': Any_, 'sds': Any_}


for _method, _step in (('validate_pre_sds_if_applicable', 'pre'), ('validate_post_sds_if_applicable', 'post')):
    M.contract('%s:FixedPreOrPostSdsValidator.%s' % (P_SVN, _method),
               ghosts=dict(step=Const(_step)),
               params=dict(self=Inst(sdv_validation.FixedPreOrPostSdsValidator, _environment=Iface(PathEnvI),
                                     _validator=Iface(ValidatorI))), returns=Opt(Any_),
               ensures={
                   'runs exactly that part of what it wraps, in its environment': lambda self, trace, step:
                   [(e[0], e[1], e[2]) for e in _all_validation_calls(trace)]
                   == [('validate-' + step, self._validator, (self._environment,))],
                   'gives its verdict': lambda result, trace, step: _outcome(trace, step) == ('returned', result),
               },
               raises={ArbitraryException: {}}, raises_only=())
    M.contract('%s:SingleStepSdvValidator.%s' % (P_SVN, _method),
               ghosts=dict(step=Const(_step)),
               params=dict(self=Inst(sdv_validation.SingleStepSdvValidator, step_to_apply=EnumOf(ValidationStep),
                                     validator=Iface(ValidatorI)), environment=Iface(PathEnvI)), returns=Opt(Any_),
               ensures={
                   'runs that part of what it wraps iff it is the step to apply, else nothing (success)':
                       lambda self, environment, result, trace, step:
                       ([(e[0], e[1], e[2]) for e in _all_validation_calls(trace)]
                        == [('validate-' + step, self.validator, (environment,))]
                        and _outcome(trace, step) == ('returned', result))
                       if self.step_to_apply is (ValidationStep.PRE_SDS if step == 'pre' else ValidationStep.POST_SDS)
                       else (trace == [] and result is None),
               },
               raises={ArbitraryException: {}}, raises_only=())
    M.contract('%s:ConstantDdvValidator.%s' % (P_DVN, _method),
               ghosts=dict(step=Const(_step)),
               params=dict(self=CONSTANT_DDV, hds=Any_, tcds=Any_), returns=Opt(Any_), inline=True,
               ensures={'the constant of that step, no effect': lambda self, result, trace, step:
               result is (self._pre_sds_result if step == 'pre' else self._post_sds_result) and trace == []},
               raises_only=())
    M.contract('%s:PreOrPostSdsSvhValidationErrorValidator.%s' % (P_SVH, _method),
               ghosts=dict(step=Const(_step)),
               params=dict(self=Inst(svh_validators.PreOrPostSdsSvhValidationErrorValidator,
                                     validator=Iface(ValidatorI)), environment=Iface(PathEnvI)),
               returns=c01.SVH, inline=True,      # (call sites -- the *FromParts instructions, C03b -- see the body)
               ensures={
                   'runs exactly that part of what it wraps': lambda self, environment, trace, step:
                   [(e[0], e[1], e[2]) for e in _all_validation_calls(trace)]
                   == [('validate-' + step, self.validator, (environment,))],
                   'an error message is a VALIDATION_ERROR, none is success': lambda result, trace, step:
                   c01.svh_kind(result) == (None if _outcome(trace, step)[1] is None else 'VALIDATION_ERROR')
                   and result.failure_message is _outcome(trace, step)[1],
               },
               raises={ArbitraryException: {}}, raises_only=())


class GetValidatorI(Interface):
    """DdvValidatorResolver: symbols -> DdvValidator"""
    methods = {'__call__': Method(returns=Iface(ValidatorI), may_raise=(_mk_arbitrary,), event='get-validator')}


M.contract(P_SVN + ':SdvValidatorFromDdvValidator.validate_pre_sds_if_applicable',
           params=dict(self=Inst(sdv_validation.SdvValidatorFromDdvValidator, _get_value_validator=Iface(GetValidatorI),
                                 _hds=Const(None)), environment=Iface(PathEnvI)), returns=Opt(Any_),
           ensures={
               'the pre-sds part of the validator of the resolved value, on the home directories, and nothing else':
                   lambda self, environment, result, trace:
                   [e for e in trace if e[0] == 'get-validator'] == [('get-validator', self._get_value_validator,
                                                                      (environment.symbols,))]
                   and [(e[0], e[1], e[2]) for e in _all_validation_calls(trace)]
                   == [('validate-pre', [e for e in trace if e[0] == 'get-validator:returned'][0][2],
                        (environment.hds,))]
                   and _outcome(trace, 'pre') == ('returned', result)},
           raises={ArbitraryException: {}}, raises_only=())


# ----- more adapters

class TcdsI(Interface):
    attrs = {'hds': Any_, 'sds': Any_}


M.contract(P_DV + ':FixedPreOrPostSdsValidator.validate_pre_sds_if_applicable',
           params=dict(self=Inst(ddv_validators.FixedPreOrPostSdsValidator, _tcds=Iface(TcdsI),
                                 _validator=Iface(ValidatorI))), returns=Opt(Any_),
           ensures={'runs exactly the pre-sds part of what it wraps, on the home directories': lambda self, trace:
           [(e[0], e[1], e[2]) for e in _all_validation_calls(trace)] == [('validate-pre', self._validator,
                                                                           (self._tcds.hds,))],
                    'gives its verdict': lambda result, trace: _outcome(trace, 'pre') == ('returned', result)},
           raises={ArbitraryException: {}}, raises_only=())
M.contract(P_DV + ':FixedPreOrPostSdsValidator.validate_post_sds_if_applicable',
           params=dict(self=Inst(ddv_validators.FixedPreOrPostSdsValidator, _tcds=Iface(TcdsI),
                                 _validator=Iface(ValidatorI))), returns=Opt(Any_),
           ensures={'runs exactly the post-sds part of what it wraps': lambda self, trace:
           [(e[0], e[1], e[2]) for e in _all_validation_calls(trace)] == [('validate-post', self._validator,
                                                                           (self._tcds,))],
                    'gives its verdict': lambda result, trace: _outcome(trace, 'post') == ('returned', result)},
           raises={ArbitraryException: {}}, raises_only=())


# validators that report through exceptions (SvhValidationException / SvhHardErrorException)

def _mk_svh_validation_exception(interp, o):
    e = svh_exception.SvhValidationException.__new__(svh_exception.SvhValidationException)
    e._err_msg = Any_.make(interp, 'svh_exception.err_msg')
    return e


def _mk_svh_hard_error_exception(interp, o):
    e = svh_exception.SvhHardErrorException.__new__(svh_exception.SvhHardErrorException)
    e._err_msg = Any_.make(interp, 'svh_exception.err_msg')
    return e


_SVH_RAISES = (_mk_svh_validation_exception, _mk_svh_hard_error_exception, _mk_arbitrary)


class ValidatorViaExceptionsI(Interface):
    target_class = svh_validators.SvhValidatorViaExceptions
    methods = {'validate_pre_sds': Method(may_raise=_SVH_RAISES, event='x-validate-pre'),
               'validate_post_setup': Method(may_raise=_SVH_RAISES, event='x-validate-post')}


def _x_calls(trace):
    return [(e[0], e[1], e[2]) for e in trace if e[0] in ('x-validate-pre', 'x-validate-post')]


def _x_raised(trace):
    r = [e for e in trace if e[0].endswith(':raised')]
    return r[0][2] if r else None


for _method, _xmethod, _event in (('validate_pre_sds_if_applicable', 'validate_pre_sds', 'x-validate-pre'),
                                  ('validate_post_sds_if_applicable', 'validate_post_setup', 'x-validate-post')):
    M.contract('%s:SdvValidatorFromSdvValidatorViaExceptions.%s' % (P_SVH, _method),
               params=dict(self=Inst(svh_validators.SdvValidatorFromSdvValidatorViaExceptions,
                                     _adapted=Iface(ValidatorViaExceptionsI)), environment=Iface(PathEnvI)),
               ghosts=dict(event=Const(_event)), returns=Opt(Any_),
               ensures={
                   'runs exactly that part of what it adapts': lambda self, environment, event, trace:
                   _x_calls(trace) == [(event, self._adapted, (environment,))],
                   'the message of an SvhException is the error, no exception is success': lambda result, trace:
                   result is (None if _x_raised(trace) is None else _x_raised(trace).err_msg),
               },
               raises={ArbitraryException: {}}, raises_only=())
    M.contract('%s:SvhValidatorViaReturnValuesFromValidatorViaExceptions.%s' % (P_SVH, _xmethod),
               params=dict(self=Inst(svh_validators.SvhValidatorViaReturnValuesFromValidatorViaExceptions,
                                     _adapted=Iface(ValidatorViaExceptionsI)), environment=Iface(PathEnvI)),
               ghosts=dict(event=Const(_event)), returns=c01.SVH,
               ensures={
                   'runs exactly that part of what it adapts': lambda self, environment, event, trace:
                   _x_calls(trace) == [(event, self._adapted, (environment,))],
                   'validation exception: VALIDATION_ERROR, hard error exception: HARD_ERROR, none: success':
                       lambda result, trace:
                       c01.svh_kind(result) == (None if _x_raised(trace) is None else
                                                'VALIDATION_ERROR' if isinstance(_x_raised(trace),
                                                                                 svh_exception.SvhValidationException)
                                                else 'HARD_ERROR')
                       and (_x_raised(trace) is None or result.failure_message is _x_raised(trace).err_msg),
               },
               raises={ArbitraryException: {}}, raises_only=())
    M.contract('%s:SvhValidatorViaExceptionsFromPreAndPostSdsValidators.%s' % (P_SVH, _xmethod),
               params=dict(self=Inst(svh_validators.SvhValidatorViaExceptionsFromPreAndPostSdsValidators,
                                     _pre_sds=Opt(Iface(ValidatorViaExceptionsI)),
                                     _post_setup=Opt(Iface(ValidatorViaExceptionsI))), environment=Iface(PathEnvI)),
               ghosts=dict(event=Const(_event)),
               ensures={
                   'runs its validator of that step, if it has one, and nothing of the other step':
                       lambda self, environment, event, trace:
                       _x_calls(trace) == ([] if (self._pre_sds if event == 'x-validate-pre' else self._post_setup) is None
                                           else [(event, self._pre_sds if event == 'x-validate-pre' else self._post_setup,
                                                  (environment,))]),
               },
               raises={svh_exception.SvhValidationException: {}, svh_exception.SvhHardErrorException: {},
                       ArbitraryException: {}},
               raises_only=())


# ====================================================================================== D: existence of paths
# "names a missing file in a home directory": the generic path-existence validators check a path BEFORE the
# sandbox exists exactly when it can exist then -- it is absolute or relative to a home directory -- and after
# the sandbox has been created otherwise; each path is checked in exactly one of the two steps.
# (Strengthened after the seeded change C03-s1, which classified absolute paths as post-sandbox.)

from exactly_lib.impls.types.path import path_validator as _path_validator
from exactly_lib.tcfs.path_relativity import RelOptionType, SpecificPathRelativity, DirectoryStructurePartition
from exactly_lib.type_val_deps.types.path.path_ddv import PathDdv as _PathDdv


class _AnyPathDdv(_PathDdv):
    """a PathDdv known only by its relativity (None: absolute)"""

    def relativity(self):
        return SpecificPathRelativity(self._rel)


_AnyPathDdv.__abstractmethods__ = frozenset()      # the other methods are not used by what is verified here

_LIES_IN_THE_SANDBOX_OR_CWD = (RelOptionType.REL_ACT, RelOptionType.REL_TMP, RelOptionType.REL_RESULT,
                               RelOptionType.REL_CWD)

_ANY_PATH_DDV = Inst(_AnyPathDdv, _rel=Opt(EnumOf(RelOptionType)))

M.contract('exactly_lib.type_val_deps.types.path.path_ddv:PathDdv.exists_pre_sds',
           params=dict(self=_ANY_PATH_DDV), returns=Bool, inline=True,
           ensures={'exists before the sandbox iff absolute or relative to a home directory': lambda self, result:
           result == (self._rel not in _LIES_IN_THE_SANDBOX_OR_CWD)},
           raises_only=())

M.contract('exactly_lib.type_val_deps.types.path.path_ddv:PathDdv.resolving_dependency',
           params=dict(self=_ANY_PATH_DDV), inline=True,
           ensures={'None iff absolute, HDS iff relative to a home directory, NON_HDS otherwise': lambda self, result:
           result is (None if self._rel is None else
                      DirectoryStructurePartition.NON_HDS if self._rel in _LIES_IN_THE_SANDBOX_OR_CWD
                      else DirectoryStructurePartition.HDS)},
           raises_only=())


class _DescribedPathI(Interface):
    attrs = {}


class _CheckedPathDdvI(Interface):
    """the PathDdv that a validator checks: when it exists, and its two described values"""
    target_class = _PathDdv
    methods = {
        'exists_pre_sds': Method(returns=Bool, pure=True),
        'value_pre_sds__d': Method(returns=Iface(_DescribedPathI), event='value-pre-sds'),
        'value_post_sds__d': Method(returns=Iface(_DescribedPathI), event='value-post-sds'),
    }


class _AnyPathDdvValidator(_path_validator.PathDdvValidatorBase):
    """a concrete existence validator: what `_validate_path` says about a path is opaque"""

    def _validate_path(self, path):
        return self._check.check(path)


_AnyPathDdvValidator.__abstractmethods__ = frozenset()


class _PathCheckI(Interface):
    methods = {'check': Method(returns=Opt(Any_), event='check-path')}


class _TcdsI(Interface):
    attrs = {'sds': Any_, 'hds': Any_}


_DDV_VALIDATOR = Inst(_AnyPathDdvValidator, _path_ddv=Iface(_CheckedPathDdvI), _check=Iface(_PathCheckI))


def _checks(trace):
    return [e for e in trace if e[0] == 'check-path']


M.contract('exactly_lib.impls.types.path.path_validator:PathDdvValidatorBase.validate_pre_sds_if_applicable',
           params=dict(self=_DDV_VALIDATOR, hds=Any_), returns=Opt(Any_),
           ensures={
               'a path that exists before the sandbox is checked now; any other path is not checked in this step':
                   lambda self, trace: len(_checks(trace)) == (1 if self._path_ddv.exists_pre_sds() else 0),
               'its verdict is the verdict of the check': lambda self, result, trace:
               result is (c01.outcome_event(trace, 'check-path')[1] if self._path_ddv.exists_pre_sds() else None),
           }, raises_only=())

M.contract('exactly_lib.impls.types.path.path_validator:PathDdvValidatorBase.validate_post_sds_if_applicable',
           params=dict(self=_DDV_VALIDATOR, tcds=Iface(_TcdsI)), returns=Opt(Any_),
           ensures={
               'exactly the paths that cannot exist before the sandbox are checked after it has been created':
                   lambda self, trace: len(_checks(trace)) == (0 if self._path_ddv.exists_pre_sds() else 1),
               'its verdict is the verdict of the check': lambda self, result, trace:
               result is (None if self._path_ddv.exists_pre_sds() else c01.outcome_event(trace, 'check-path')[1]),
           }, raises_only=())


# ====================================================================================== D2: composite values
# A value composed of parts is valid only if every part is: its validator is the conjunction of the validators of
# ALL its parts (a part left out is never validated before execution: an invalid regex or integer inside it shows
# as an error in the middle of the execution).  The generic composition of matchers on a property of the model
# (`-selection`, `-with-pruned`, `contents`, `dir-contents`, `line-num`, `num-files`, ... are all instances):
# the matcher of the property AND the getter of the property.  (After the seeded change C03-s6.)
from exactly_lib.impls.types.matcher import property_matcher as _property_matcher


class _WithValidatorI(Interface):
    """a MatcherDdv / PropertyGetterDdv as far as validation is concerned"""
    attrs = {'validator': Iface(ValidatorI)}


M.contract('exactly_lib.impls.types.matcher.property_matcher:PropertyMatcherDdv.__init__',
           params=dict(self=Inst(_property_matcher.PropertyMatcherDdv), matcher=Iface(_WithValidatorI),
                       property_getter=Iface(_WithValidatorI), describer=Any_,
                       get_int_interval_of_prop_matcher=Any_),
           ensures={'validated iff the matcher of the property and the property getter both are':
                    lambda self, matcher, property_getter:
                    type(self._validator) is ddv_validators.AndValidator and len(self._validator.validators) == 2
                    and self._validator.validators[0] is matcher.validator
                    and self._validator.validators[1] is property_getter.validator,
                    'the validator of the value is that conjunction': lambda self: self.validator is self._validator},
           raises_only=())


# ====================================================================================== E: symbols
# "refers to an undefined or wrongly typed symbol ... VALIDATION_ERROR and nothing is executed": the checking of
# symbol usages against the growing table and the type restrictions (direct and, transitively, indirect) are
# under contract in C08; those clauses carry C03 as well, the check of C03 re-proves them on the current tree.
# (After the seeded change C03-s2, which followed only the first indirect reference.)

def _share_symbol_validation():
    import importlib
    c08 = importlib.import_module('contracts.C08_symbols')
    wanted_suffixes = (
        ':_validate_reference', ':_validate_symbol_reference', ':_validate_symbol_definition',
        ':validate_symbol_usage', ':validate_symbol_usages',
        ':ReferenceRestrictionsOnDirectAndIndirect._check_indirect',
        ':ReferenceRestrictionsOnDirectAndIndirect.check_indirect',
        ':ReferenceRestrictionsOnDirectAndIndirect.is_satisfied_by',
        ':OrReferenceRestrictions._no_satisfied_restriction', ':OrReferenceRestrictions.is_satisfied_by',
        ':ArbitraryValueWStrRenderingRestriction.is_satisfied_by', ':ValueTypeRestriction.is_satisfied_by',
    )
    n = 0
    for c in c08.M.contracts:
        if c.qname.endswith(wanted_suffixes):
            c.props = tuple(sorted(set(c.props) | {'C03'}))
            n += 1
    assert n >= len(wanted_suffixes), n


M.after_load = _share_symbol_validation


# ====================================================================================== F: superfluous source in [act]
# "A test case with ... a syntax error is rejected and nothing is executed": the act-phase parser of the program
# actor must reject lines that follow the command after blank lines (`_syntax_error_if_not_at_eof`); its contract is
# stated over C07's ParseSource contracts and lives there; it carries C03 as well.  (Seeded change C03-s3.)
_share_symbol_validation_0 = M.after_load


def _share_more():
    _share_symbol_validation_0()
    from contracts.common import share_contracts
    share_contracts('C03', 'contracts.C07_document', lambda q: q.endswith(':_syntax_error_if_not_at_eof'))


M.after_load = _share_more
