"""Mutants for the C05 extension T14 (contracts/C05c_strip.py ...): same format as selftest/mutants.py."""

_STRIP = 'exactly_lib/impls/types/string_transformer/impl/strip_space.py'

MUTANTS = [
    # --- strip -trailing-new-lines (deductive proof of the real generator)
    ('t14c05-tnl-loses-one-counted-new-line', 'C05', _STRIP,
     "            while num_empty_lines_skipped != 0:", "            while num_empty_lines_skipped > 1:",
     '_strip_trailing_new_lines : '),
    ('t14c05-tnl-keeps-new-line-of-last-line', 'C05', _STRIP,
     "        last_line = line_before_counted_empty_lines[:-1]", "        last_line = line_before_counted_empty_lines",
     '_strip_trailing_new_lines : ensures[yields the lines of the text without the new-lines at its end]'),
    ('t14c05-tnl-yields-empty-last-line', 'C05', _STRIP,
     "    if last_line != '':\n        yield last_line", "    yield last_line",
     '_strip_trailing_new_lines : ensures[yields the lines of the text without the new-lines at its end]'),
    # --- strip -trailing-space
    ('t14c05-ts-keeps-space-of-last-line', 'C05', _STRIP,
     "    mb_last = line_before_empty_lines_list.rstrip()", "    mb_last = line_before_empty_lines_list",
     '_strip_trailing_space : ensures[yields the lines of the text without the white space at its end]'),
    ('t14c05-ts-yields-empty-last-line', 'C05', _STRIP,
     "    if mb_last != '':\n        yield mb_last", "    yield mb_last",
     '_strip_trailing_space : ensures[yields the lines of the text without the white space at its end]'),
    ('t14c05-ts-loses-skipped-lines', 'C05', _STRIP,
     "            yield line_before_empty_lines_list\n            for empty_line in empty_lines_skipped:\n"
     "                yield empty_line\n",
     "            yield line_before_empty_lines_list\n",
     '_strip_trailing_space : loop#1 invariant[preserved]'),
    ('t14c05-ts-skipped-lines-not-reset', 'C05', _STRIP,
     "                yield empty_line\n            empty_lines_skipped = []\n            line_before_empty_lines_list = next_line",
     "                yield empty_line\n            line_before_empty_lines_list = next_line",
     '_strip_trailing_space : loop#1 invariant[preserved]'),
    # --- strip (default)
    ('t14c05-s-keeps-leading-space', 'C05', _STRIP,
     "    non_empty_line = non_empty_line.lstrip()\n\n    for next_line in lines:",
     "    for next_line in lines:",
     '_strip_space'),        # quick tier: bounded[strip_space._strip_space]; thorough tier: `_strip_space : loop#1 invariant[entry]`
    ('t14c05-s-keeps-space-of-last-line', 'C05', _STRIP,
     "    yield non_empty_line.rstrip()", "    yield non_empty_line",
     '_strip_space'),        # quick tier: bounded[strip_space._strip_space]; thorough: `_strip_space : ensures[yields the lines of the text without the white space at its beginning and end]`
]
