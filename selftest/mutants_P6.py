"""Mutants for the inductive contracts of the recursive descent (contracts/C06c_descent.py, extension P6).
Same format as selftest/mutants.py: (id, property, file below src/, old text, new text, substring of the obligation
that must report it)."""

_PARSER = 'exactly_lib/impls/types/expression/parser.py'

MUTANTS = [
    # a prefix operator applies to the following PRIMITIVE only
    ('c06p6-prefix-operand-is-full-expression', 'C06', _PARSER,
     "                expression = self.parse_mandatory_primitive(must_be_on_current_line=False)",
     "                expression = self.parse(_NEXT_EXPR_ON_ANY_LINE)",
     '_Parser.parse_mandatory_primitive : ensures[reads exactly the primitive of the documented grammar'),
    # ( E ): line breaks are allowed inside
    ('c06p6-inside-parentheses-operators-on-current-line', 'C06', _PARSER,
     "            expression = self.parse(_IS_INSIDE_PARENTHESES)",
     "            expression = self.parse(_NEXT_EXPR_ON_ANY_LINE)",
     '_Parser.parse_mandatory_primitive : '),
    # a run of the same operator: on the same line unless inside parentheses
    ('c06p6-run-layout-flipped', 'C06', _PARSER,
     "                must_be_on_current_line=not is_inside_parens):",
     "                must_be_on_current_line=is_inside_parens):",
     '_Parser.infix_op_sequence_for_single_op : '),
    # operands of a run in source order
    ('c06p6-run-operands-reversed', 'C06', _PARSER,
     "            operands.append(next_operand)",
     "            operands.insert(0, next_operand)",
     '_Parser.infix_op_sequence_for_single_op : '),
    # fix 35f7247, second half: the mode is kept for the operands of a run
    ('c06p6-revert-fix-operand-mode-inside-parentheses', 'C06', _PARSER,
     "            next_operand = self.parse_w_maybe_infix_ops(\n"
     "                _IS_INSIDE_PARENTHESES if is_inside_parens else _NEXT_EXPR_ON_ANY_LINE,\n"
     "                infix_ops_levels)",
     "            next_operand = self.parse_w_maybe_infix_ops(_NEXT_EXPR_ON_ANY_LINE,\n"
     "                                                        infix_ops_levels)",
     '_Parser.infix_op_sequence_for_single_op : '),
    # fix 35f7247, first half: the mode is passed to the higher-precedence levels
    ('c06p6-revert-fix-first-operand-mode', 'C06', _PARSER,
     "        expression = self.parse_w_maybe_infix_ops(new_line_ignore,\n",
     "        expression = self.parse_w_maybe_infix_ops(new_line_ignore is None,\n",
     '_Parser.parse_w_infix_ops : '),
    # precedence: the operands of a level are expressions of the NEXT level
    ('c06p6-operand-of-same-level', 'C06', _PARSER,
     "        infix_ops__next_levels = infix_ops_levels[1:]",
     "        infix_ops__next_levels = infix_ops_levels[2:]",
     '_Parser.parse_w_infix_ops : '),
    # an operator outside parentheses must be on the line of the operand before it
    ('c06p6-operator-on-any-line', 'C06', _PARSER,
     "        infix_operator_name = self.parse_optional_infix_op_name(new_line_ignore is None,\n"
     "                                                                infix_op_names__curr_level)\n\n"
     "        while infix_operator_name:",
     "        infix_operator_name = self.parse_optional_infix_op_name(False,\n"
     "                                                                infix_op_names__curr_level)\n\n"
     "        while infix_operator_name:",
     '_Parser.parse_w_infix_ops : '),
    # inside parentheses a further operator of the level may stand on the next line: if it is not taken there, the
    # closing-parenthesis helper (which accepts operator names) would take it
    ('c06p6-second-operator-must-be-on-current-line', 'C06', _PARSER,
     "            infix_operator_name = self.parse_optional_infix_op_name(new_line_ignore is None,\n",
     "            infix_operator_name = self.parse_optional_infix_op_name(True,\n",
     '_Parser.parse_w_infix_ops : '),
    # parsers(b).simple: exactly one primitive; parsers(b).full: operators outside parentheses on the current line
    ('c06p6-simple-parser-reads-full-expression', 'C06', _PARSER,
     "        return _Parser(self._grammar, parser).parse_mandatory_primitive(False)",
     "        return _Parser(self._grammar, parser).parse(_NEXT_EXPR_ON_ANY_LINE)",
     '_SimpleParserOnAnyLineParser.parse_from_token_parser : ensures[the simple parser reads exactly one primitive]'),
    ('c06p6-full-parser-operators-on-any-line', 'C06', _PARSER,
     "        return _Parser(self._grammar, parser).parse(_NEXT_EXPR_ON_ANY_LINE)",
     "        return _Parser(self._grammar, parser).parse(_IS_INSIDE_PARENTHESES)",
     '_FullParserOnAnyLineParser.parse_from_token_parser : ensures[the full parser reads exactly'),
    # the full parser starts at the lowest precedence level
    ('c06p6-parse-skips-lowest-level', 'C06', _PARSER,
     "        return self.parse_w_maybe_infix_ops(new_line_ignore,\n"
     "                                            self.grammar.infix_ops_inc_precedence)",
     "        return self.parse_w_maybe_infix_ops(new_line_ignore,\n"
     "                                            self.grammar.infix_ops_inc_precedence[1:])",
     '_Parser.parse : '),
]

# property-preserving edits: no alarm
BENIGN = [
    ('benign-c06p6-temporary-in-parse', 'C06', _PARSER,
     [("        return self.parse_w_maybe_infix_ops(new_line_ignore,\n"
       "                                            self.grammar.infix_ops_inc_precedence)",
       "        all_levels = self.grammar.infix_ops_inc_precedence\n"
       "        return self.parse_w_maybe_infix_ops(new_line_ignore, all_levels)")]),
]
