"""Mutants for the contracts of contracts/C17b_shared_objects.py (extension M17): variations of the seeded changes
C17-s7 / s8 / s9 -- a different caching site, a different stale object.  Same format as selftest/mutants.py."""

MUTANTS = [
    # variation of C17-s7: not the validator but the SYMBOL TABLE of the first case is kept in the shared validator
    ('m17-validator-keeps-first-symbols', 'C17',
     'exactly_lib/type_val_deps/dep_variants/sdv/sdv_validation.py',
     "    def _get_validator(self, symbols: SymbolTable) -> DdvValidator:\n"
     "        return self._get_value_validator(symbols)",
     "    def _get_validator(self, symbols: SymbolTable) -> DdvValidator:\n"
     "        if self._hds is None:\n"
     "            self._hds = symbols\n"
     "        return self._get_value_validator(self._hds)",
     'harness_suite_instruction_validated_in_two_cases : ensures[case B is validated'),
    # variation of C17-s8: the PRE-sds value (home directories of the first case) is memoised in the shared DDV
    ('m17-path-ddv-memoises-pre-sds-value', 'C17',
     'exactly_lib/type_val_deps/types/path/path_ddvs.py',
     "        root = self._rel_root_resolver.from_hds(hds)\n"
     "        return root / suffix",
     "        cached = getattr(self, '_pre_sds_value', None)\n"
     "        if cached is None:\n"
     "            cached = self._rel_root_resolver.from_hds(hds) / suffix\n"
     "            self._pre_sds_value = cached\n"
     "        return cached",
     'harness_shared_home_path_resolved_in_two_cases : ensures['),
    # variation of C17-s8, another site: the stacked path (`@[EXACTLY_TMP]@/sub`) keeps the base of the first case
    ('m17-stacked-path-keeps-first-base', 'C17',
     'exactly_lib/type_val_deps/types/path/path_ddvs.py',
     "        return self.base_path.value_post_sds(sds) / self._stacked_path_suffix_path()",
     "        base = getattr(self, '_base_post_sds', None)\n"
     "        if base is None:\n"
     "            base = self.base_path.value_post_sds(sds)\n"
     "            self._base_post_sds = base\n"
     "        return base / self._stacked_path_suffix_path()",
     'harness_shared_stacked_path_resolved_in_two_cases : ensures['),
    # variation of C17-s9: the processor of the FIRST suite of the enumeration is kept in the executor
    ('m17-executor-keeps-first-processor', 'C17',
     'exactly_lib/test_suite/processing.py',
     "        configuration = self._configuration_for_cases_in_suite(suite)\n"
     "        return self._test_case_processor_constructor(configuration)",
     "        cached = getattr(self, '_cached_case_processor', None)\n"
     "        if cached is None:\n"
     "            configuration = self._configuration_for_cases_in_suite(suite)\n"
     "            cached = self._test_case_processor_constructor(configuration)\n"
     "            self._cached_case_processor = cached\n"
     "        return cached",
     'harness_cases_of_two_suites_are_processed : ensures[the case of the root suite'),
]
