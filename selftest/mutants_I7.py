"""Mutants for the extension I7 (instruction framework and concrete instructions: contracts/C03b_instructions.py,
contracts/C18b_instructions.py).  Same format as selftest/mutants.py."""

_FP = 'exactly_lib/impls/instructions/%s/utils/instruction_from_parts.py'

MUTANTS = [
    # --- the *PhaseInstructionFromParts adapters
    ('i7-setup-pre-sds-runs-post-sds-part', 'C03', _FP % 'setup',
     "        return self._validator.validate_pre_sds_if_applicable(environment.path_resolving_environment)",
     "        return self._validator.validate_post_sds_if_applicable(environment.path_resolving_environment)",
     'SetupPhaseInstructionFromParts.validate_pre_sds : ensures[only the pre-sds part'),
    ('i7-cleanup-pre-sds-validation-dropped', 'C03', _FP % 'cleanup',
     "        validator = PreOrPostSdsSvhValidationErrorValidator(self.setup.validator)\n"
     "        return validator.validate_pre_sds_if_applicable(environment.path_resolving_environment)",
     "        return svh.new_svh_success()",
     'CleanupPhaseInstructionFromParts.validate_pre_sds : ensures[only the pre-sds part'),
    ('i7-assert-main-ignores-post-sds-validation', 'C03', _FP % 'assert_',
     "        if not validation_result.is_success:", "        if False:",
     'AssertPhaseInstructionFromParts.main : ensures[post-sds validation of the parts first'),
    ('i7-before-assert-post-setup-runs-main', 'C03', _FP % 'before_assert',
     "        return svh.new_svh_success()",
     "        self.setup.executor.apply_as_non_assertion(environment, None, None, None)\n"
     "        return svh.new_svh_success()",
     'BeforeAssertPhaseInstructionFromParts.validate_post_setup : ensures[success; runs nothing'),
    # --- the main step of an embryo; the construction of the parts
    ('i7-embryo-hard-error-escapes', 'C03', 'exactly_lib/impls/instructions/multi_phase/utils/instruction_part_utils.py',
     "        except HardErrorException as ex:\n            return sh.new_sh_hard_error(ex.error)",
     "        except KeyError as ex:\n            return sh.new_sh_hard_error(ex.error)",
     'MainStepExecutorFromMainStepExecutorEmbryo.apply_as_non_assertion : raises_only'),
    ('i7-embryo-main-result-ignored', 'C03', 'exactly_lib/impls/instructions/multi_phase/utils/instruction_part_utils.py',
     "        return self.result_translator.translate_for_assertion(result)",
     "        return pfh.new_pfh_pass()",
     'MainStepExecutorFromMainStepExecutorEmbryo.apply_as_assertion : ensures[a HardErrorException of main'),
    ('i7-parts-of-embryo-without-its-validator', 'C03',
     'exactly_lib/impls/instructions/multi_phase/utils/instruction_part_utils.py',
     "    return InstructionParts(instruction.validator,",
     "    return InstructionParts(None,",
     'instruction_parts_from_embryo : ensures[the validator of the parts is THE validator of the embryo'),
    ('i7-parser-validates-other-parts', 'C03', _FP % 'cleanup',
     "        return CleanupPhaseInstructionFromParts(instruction_parts)",
     "        return CleanupPhaseInstructionFromParts(InstructionParts(None, instruction_parts.executor))",
     'cleanup.utils.instruction_from_parts:Parser.parse : ensures[the instruction of the phase'),
]
