"""Mutants for the extension I7 (instruction framework and concrete instructions: contracts/C03b_instructions.py,
contracts/C18b_instructions.py).  Same format as selftest/mutants.py."""

_FP = 'exactly_lib/impls/instructions/%s/utils/instruction_from_parts.py'

MUTANTS = [
    # --- the *PhaseInstructionFromParts adapters
    ('i7-setup-pre-sds-runs-post-sds-part', 'C03', _FP % 'setup',
     "        return self._validator.validate_pre_sds_if_applicable(environment.path_resolving_environment)",
     "        return self._validator.validate_post_sds_if_applicable(environment.path_resolving_environment)",
     'SetupPhaseInstructionFromParts.validate_pre_sds : ensures[only the pre-sds part'),
    ('i7-cleanup-pre-sds-validation-dropped', 'C03', _FP % 'cleanup',
     "        validator = PreOrPostSdsSvhValidationErrorValidator(self.setup.validator)\n"
     "        return validator.validate_pre_sds_if_applicable(environment.path_resolving_environment)",
     "        return svh.new_svh_success()",
     'CleanupPhaseInstructionFromParts.validate_pre_sds : ensures[only the pre-sds part'),
    ('i7-assert-main-ignores-post-sds-validation', 'C03', _FP % 'assert_',
     "        if not validation_result.is_success:", "        if False:",
     'AssertPhaseInstructionFromParts.main : ensures[post-sds validation of the parts first'),
    ('i7-before-assert-post-setup-runs-main', 'C03', _FP % 'before_assert',
     "        return svh.new_svh_success()",
     "        self.setup.executor.apply_as_non_assertion(environment, None, None, None)\n"
     "        return svh.new_svh_success()",
     'BeforeAssertPhaseInstructionFromParts.validate_post_setup : ensures[success; runs nothing'),
]
