"""Mutants of extension M12 (variations of the seeded changes C12-s7, C12-s8, C08-s9; same format as mutants.py)."""

_SL = 'exactly_lib/section_document/source_location.py'
_PFS = 'exactly_lib/type_val_deps/types/path/path_sdv_impls/path_from_symbol_reference.py'

MUTANTS = [
    # ---- contracts/C12c_rel_here_root.py: the root of -rel-here is the fold over the WHOLE inclusion chain
    # every file name taken relative to the root directory instead of to the including file
    ('m12-rel-here-not-accumulated', 'C12', _SL,
     "                ret_val = ret_val / file_path_rel_referrer.parent",
     "                ret_val = self.abs_path_of_dir_containing_first_file_path / file_path_rel_referrer.parent",
     'abs_path_of_dir_containing_last_file_base_name : '),
    # the current file's own directory is left out (the chain alone)
    ('m12-rel-here-current-file-ignored', 'C12', _SL,
     "                                       [self.file_path_rel_referrer])",
     "                                       [])",
     'abs_path_of_dir_containing_last_file_base_name : '),
    # the first link of the chain (the root file) is skipped
    ('m12-rel-here-first-link-skipped', 'C12', _SL,
     "                                        for source_location in self.file_inclusion_chain\n",
     "                                        for source_location in self.file_inclusion_chain[1:]\n",
     'abs_path_of_dir_containing_last_file_base_name : '),
    # ---- contracts/C12c_relativity_constants.py: module-level relativity constants are values
    # the set for source files after act is "extended" in place from the before-act set object: afterwards -rel-result
    # is accepted for sources before the act phase too
    ('m12-src-rel-opts-constant-mutated', 'C12', 'exactly_lib/impls/instructions/source_file_relativities.py',
     "    return _SRC_REL_OPTIONS__AFTER_ACT if phase_is_after_act else _SRC_REL_OPTIONS__BEFORE_ACT",
     "    ret_val = _SRC_REL_OPTIONS__BEFORE_ACT\n"
     "    if phase_is_after_act:\n"
     "        ret_val |= {RelOptionType.REL_RESULT}\n"
     "    return ret_val",
     # reported by `at load: ...` or by `frame: ...rel_opts_for_phase ...`: depends on what ran before in the process
     'module-level relativity constant'),
    # same defect, seen by the syntactic obligation (augmented assignment on an object of a module-level constant)
    ('m12-src-rel-opts-constant-mutated-scan', 'C12', 'exactly_lib/impls/instructions/source_file_relativities.py',
     "    return _SRC_REL_OPTIONS__AFTER_ACT if phase_is_after_act else _SRC_REL_OPTIONS__BEFORE_ACT",
     "    ret_val = _SRC_REL_OPTIONS__BEFORE_ACT\n"
     "    if phase_is_after_act:\n"
     "        ret_val |= {RelOptionType.REL_RESULT}\n"
     "    return ret_val",
     'no function of the tree mutates an object obtained from a module-level constant'),
    # the reading variants: the set of the BEFORE-act constant is updated when the after-act variants are asked for
    ('m12-read-variants-constant-mutated', 'C12', 'exactly_lib/type_val_deps/types/path/path_relativities.py',
     "def relativity_variants(phase_is_after_act: bool) -> PathRelativityVariants:\n    return (",
     "def relativity_variants(phase_is_after_act: bool) -> PathRelativityVariants:\n"
     "    if phase_is_after_act:\n"
     "        RELATIVITY_VARIANTS__READ__BEFORE_ACT.rel_option_types.update(RELATIVITIES__READ__AFTER_ACT)\n"
     "    return (",
     'afterwards: reading arguments accept all relativities but -rel-result before act'),
    # ---- contracts/C08c_path_symbols.py (shared with C12): a leading STRING symbol is followed by the whole suffix
    # the suffix is dropped when the string value ends with '/' (variation of C08-s9: decided from the value alone)
    ('m12-string-symbol-suffix-dropped-c08', 'C08', _PFS,
     "        path_str = first_suffix_str + following_suffix_str\n",
     "        path_str = first_suffix_str if first_suffix_str.endswith('/') else first_suffix_str + following_suffix_str\n",
     'visit_string : ensures[string-and-suffix]'),
    # absoluteness decided from the suffix instead of from value + suffix, under C08
    ('m12-string-symbol-absolute-from-suffix-c08', 'C08', _PFS,
     "        path = pathlib.PurePosixPath(path_str)\n        if path.is_absolute():",
     "        path = pathlib.PurePosixPath(following_suffix_str)\n        if path.is_absolute():",
     'visit_string : '),
    # resolve hands the visitor another suffix than its own: caught by the new substitution clauses of resolve
    ('m12-resolve-string-symbol-suffix-lost', 'C08', _PFS,
     "        symbol_value_2_path = _WStrRenderingValueSymbol2PathResolverVisitor(self._suffix_sdv,",
     "        from exactly_lib.type_val_deps.types.path.path_sdv_impls import path_part_sdvs\n"
     "        symbol_value_2_path = _WStrRenderingValueSymbol2PathResolverVisitor(path_part_sdvs.PathPartSdvAsNothing(),",
     'SdvThatIsIdenticalToReferencedPathOrWithStringValueAsSuffix.resolve : ensures['),
]

# property-preserving edits: no alarm
BENIGN = [
    # the seeded C12-s8 done right: the set of the constant is COPIED before it is extended
    ('benign-m12-cd-relativities-from-a-copy-of-the-constant', 'C12',
     'exactly_lib/impls/instructions/multi_phase/change_dir.py',
     [("    RelOptionsConfiguration\nfrom exactly_lib.util.cli_syntax.elements import argument as a",
       "    RelOptionsConfiguration, RELATIVITY_VARIANTS_FOR_FILE_CREATION\n"
       "from exactly_lib.util.cli_syntax.elements import argument as a"),
      ("    accepted = [RelOptionType.REL_ACT,\n                RelOptionType.REL_TMP,\n"
       "                RelOptionType.REL_CWD]\n",
       "    accepted = list(RELATIVITY_VARIANTS_FOR_FILE_CREATION.rel_option_types)\n")]),
    # the list of file names of -rel-here built in another way (same list)
    ('benign-m12-rel-here-list-built-with-temporary', 'C12', 'exactly_lib/section_document/source_location.py',
     [("        file_path_rel_referrer_list = ([source_location.file_path_rel_referrer\n"
       "                                        for source_location in self.file_inclusion_chain\n"
       "                                        ] +\n"
       "                                       [self.file_path_rel_referrer])\n",
       "        chain = self.file_inclusion_chain\n"
       "        file_path_rel_referrer_list = ([link.file_path_rel_referrer for link in chain] +\n"
       "                                       [self.file_path_rel_referrer])\n")]),
]
