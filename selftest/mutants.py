"""Deliberate property-breaking changes used to validate the verifier itself (never applied to /repo:
`pyvc.selftest` applies each to a scratch copy of /repo/src under $TMPDIR and removes it afterwards).

Each entry: (id, property, file relative to src/, old text, new text, substring of an obligation that must be
reported as VIOLATION)."""

MUTANTS = [
    ('c13-union-min-max', 'C13', 'exactly_lib/util/interval/w_inversion/combinations.py',
     "        else\n        min(non_none_lowers)\n    )\n    upper = (",
     "        else\n        max(non_none_lowers)\n    )\n    upper = (",
     'combinations:union : ensures[covers-both]'),
    ('c13-upperlimit-inversion-off-by-one', 'C13', 'exactly_lib/util/interval/w_inversion/intervals.py',
     "return LowerLimit(self._upper + 1)", "return LowerLimit(self._upper + 2)",
     'UpperLimit.inversion : ensures[complement-covered]'),
    ('c13-hull-inversion-regression', 'C13', 'exactly_lib/impls/types/interval/matcher_interval.py',
     "        unadapted_inversion = functools.reduce(inversion_operator,\n"
     "                                               [interval.inversion for interval in intervals_of_operands])",
     "        unadapted_inversion = unadapted.inversion",
     '_IntervalComputer._bin_op : ensures[sound]'),
    ('c13-skip-off-by-one', 'C13', 'exactly_lib/impls/types/line_matcher/model_construction.py',
     "        interval.lower - 1\n    )", "        interval.lower\n    )",
     'original_and_model_iter_from_file_line_iter__interval : ensures['),
    ('c13-yield-before-increment', 'C13', 'exactly_lib/impls/types/line_matcher/model_construction.py',
     "        ln += 1\n        yield _line_of(ln, line)", "        yield _line_of(ln, line)\n        ln += 1",
     '_lines_interval : '),
    ('c13-adapt-drops-line-1', 'C13', 'exactly_lib/impls/types/line_matcher/model_construction.py',
     "    if interval.upper is not None and interval.upper < FIRST_LINE_NUMBER:",
     "    if interval.upper is not None and interval.upper <= FIRST_LINE_NUMBER:",
     'adapt_to_line_num_range : ensures[loses-no-line-number]'),
    ('c02-xpass-code', 'C02', 'exactly_lib/processing/exit_values.py',
     "FullExeResultStatus.XPASS: _for_full_result(32 + 1, FullExeResultStatus.XPASS",
     "FullExeResultStatus.XPASS: _for_full_result(32, FullExeResultStatus.XPASS",
     'from_full_result : ensures[table-row]'),
    ('c02-xpass-verdict', 'C02', 'exactly_lib/execution/full_execution/result.py',
     "        elif ps is None:\n            return FullExeResultStatus.XPASS",
     "        elif ps is None:\n            return FullExeResultStatus.PASS",
     'translate_status : ensures[documented-verdict]'),
    ('c02-keep-identifier-on-stdout', 'C02', 'exactly_lib/processing/standalone/result_reporting.py',
     "class _ResultReporterForPreserveAndPrintSandboxDir(TestCaseResultReporter):\n"
     "    def depends_on_result_in_sandbox(self) -> bool:\n        return True\n\n"
     "    def _exit_identifier_printer(self) -> ProcOutputFile:\n        return ProcOutputFile.STDERR",
     "class _ResultReporterForPreserveAndPrintSandboxDir(TestCaseResultReporter):\n"
     "    def depends_on_result_in_sandbox(self) -> bool:\n        return True\n\n"
     "    def _exit_identifier_printer(self) -> ProcOutputFile:\n        return ProcOutputFile.STDOUT",
     '_ResultReporterForPreserveAndPrintSandboxDir.report : ensures['),
]
