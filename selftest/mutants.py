"""Deliberate property-breaking changes used to validate the verifier itself (never applied to /repo:
`pyvc.selftest` applies each to a scratch copy of /repo/src under $TMPDIR and removes it afterwards).

Each entry: (id, property, file relative to src/, old text, new text, substring of an obligation that must be
reported as VIOLATION)."""

MUTANTS = [
    ('c13-union-min-max', 'C13', 'exactly_lib/util/interval/w_inversion/combinations.py',
     "        else\n        min(non_none_lowers)\n    )\n    upper = (",
     "        else\n        max(non_none_lowers)\n    )\n    upper = (",
     'combinations:union : ensures[covers-both]'),
    ('c13-upperlimit-inversion-off-by-one', 'C13', 'exactly_lib/util/interval/w_inversion/intervals.py',
     "return LowerLimit(self._upper + 1)", "return LowerLimit(self._upper + 2)",
     'UpperLimit.inversion : ensures[complement-covered]'),
    ('c13-hull-inversion-regression', 'C13', 'exactly_lib/impls/types/interval/matcher_interval.py',
     "        unadapted_inversion = functools.reduce(inversion_operator,\n"
     "                                               [interval.inversion for interval in intervals_of_operands])",
     "        unadapted_inversion = unadapted.inversion",
     '_IntervalComputer._bin_op : ensures[sound]'),
    ('c13-skip-off-by-one', 'C13', 'exactly_lib/impls/types/line_matcher/model_construction.py',
     "        interval.lower - 1\n    )", "        interval.lower\n    )",
     'original_and_model_iter_from_file_line_iter__interval : ensures['),
    ('c13-yield-before-increment', 'C13', 'exactly_lib/impls/types/line_matcher/model_construction.py',
     "        ln += 1\n        yield _line_of(ln, line)", "        yield _line_of(ln, line)\n        ln += 1",
     '_lines_interval : '),
    ('c13-adapt-drops-line-1', 'C13', 'exactly_lib/impls/types/line_matcher/model_construction.py',
     "    if interval.upper is not None and interval.upper < FIRST_LINE_NUMBER:",
     "    if interval.upper is not None and interval.upper <= FIRST_LINE_NUMBER:",
     'adapt_to_line_num_range : ensures[loses-no-line-number]'),
    ('c02-xpass-code', 'C02', 'exactly_lib/processing/exit_values.py',
     "FullExeResultStatus.XPASS: _for_full_result(32 + 1, FullExeResultStatus.XPASS",
     "FullExeResultStatus.XPASS: _for_full_result(32, FullExeResultStatus.XPASS",
     'from_full_result : ensures[table-row]'),
    ('c02-xpass-verdict', 'C02', 'exactly_lib/execution/full_execution/result.py',
     "        elif ps is None:\n            return FullExeResultStatus.XPASS",
     "        elif ps is None:\n            return FullExeResultStatus.PASS",
     'translate_status : ensures[documented-verdict]'),
    ('c02-keep-identifier-on-stdout', 'C02', 'exactly_lib/processing/standalone/result_reporting.py',
     "class _ResultReporterForPreserveAndPrintSandboxDir(TestCaseResultReporter):\n"
     "    def depends_on_result_in_sandbox(self) -> bool:\n        return True\n\n"
     "    def _exit_identifier_printer(self) -> ProcOutputFile:\n        return ProcOutputFile.STDERR",
     "class _ResultReporterForPreserveAndPrintSandboxDir(TestCaseResultReporter):\n"
     "    def depends_on_result_in_sandbox(self) -> bool:\n        return True\n\n"
     "    def _exit_identifier_printer(self) -> ProcOutputFile:\n        return ProcOutputFile.STDOUT",
     '_ResultReporterForPreserveAndPrintSandboxDir.report : ensures['),
    ('c08-duplicate-definition-allowed', 'C08', 'exactly_lib/execution/impl/symbol_validation.py',
     "    if symbol_table.contains(definition.name):", "    if False and symbol_table.contains(definition.name):",
     '_validate_symbol_definition : ensures[defined-once'),
    ('c08-definition-visible-to-its-own-references', 'C08', 'exactly_lib/execution/impl/symbol_validation.py',
     "    else:\n        for referenced_value in definition.references:",
     "    else:\n        symbol_table.add(definition.symbol_table_entry)\n"
     "        for referenced_value in definition.references:",
     '_validate_symbol_definition : loop#0 invariant[entry]'),
    ('c08-validation-continues-after-failure', 'C08', 'exactly_lib/execution/impl/symbol_validation.py',
     "        result = validate_symbol_usage(symbol_usage, symbols)\n        if result is not None:\n"
     "            return result\n    return None",
     "        result = validate_symbol_usage(symbol_usage, symbols)\n    return None",
     'validate_symbol_usages : loop#0 invariant[preserved]'),
    ('c08-phases-do-not-share-the-table', 'C08',
     'exactly_lib/execution/partial_execution/impl/symbol_validation.py',
     "        self._validation_executor = ValidateSymbolsExecutor(self._symbols)",
     "        self._validation_executor = ValidateSymbolsExecutor(self._symbols.copy())",
     'SymbolsValidator.__init__ : ensures[one shared table]'),
    ('c08-indirect-references-not-followed', 'C08',
     'exactly_lib/type_val_deps/sym_ref/w_str_rend_restrictions/reference_restrictions.py',
     "            result = self._check_indirect(symbol_table,\n"
     "                                          path_to_referring_symbol + (reference.name,),\n"
     "                                          container.sdv.references)\n"
     "            if result is not None:\n                return result",
     "            pass",
     '_check_indirect : loop#0 invariant[preserved]'),
    ('c08-list-in-string-joined-by-comma', 'C08', 'exactly_lib/type_val_deps/types/string_/strings_ddvs.py',
     "        return ' '.join(value)", "        return ','.join(value)",
     '_StringFragmentDdvFromDirDependentValue.value_of_any_dependency : loop#join#0 invariant[preserved]'),
    ('c11-expansion-after-the-change', 'C11', 'exactly_lib/impls/instructions/multi_phase/environ/impl.py',
     "        environ[self._name] = _expand_vars(self._value, environ)",
     "        environ[self._name] = ''\n        environ[self._name] = _expand_vars(self._value, environ)",
     'ModifierOfSet.modify : ensures['),
    ('c11-unknown-variable-not-empty', 'C11', 'exactly_lib/impls/instructions/multi_phase/environ/impl.py',
     "        except KeyError:\n            return ''", "        except KeyError:\n            return reference",
     '_expand_vars : loop#0 invariant[preserved]'),
    ('c11-act-applier-changes-non-act-set', 'C11', 'exactly_lib/impls/instructions/multi_phase/environ/impl.py',
     "        modifier.modify(self._setup_phase_settings.environ)",
     "        modifier.modify(self._instruction_settings.environ())",
     'ModifierApplierForSetupPhase.apply : frame['),
    ('c11-environments-computed-once', 'C11', 'exactly_lib/execution/partial_execution/impl/executor.py',
     "        for instruction_number in itertools.count(1):\n"
     "            yield self._post_sds_environment(\n"
     "                self._phase_tmp_space_factory.instruction__main(phase, instruction_number),\n"
     "                self.__post_sds_symbol_table,\n            )",
     "        the_env = self._post_sds_environment(\n"
     "                self._phase_tmp_space_factory.instruction__main(phase, 1),\n"
     "                self.__post_sds_symbol_table,\n            )\n"
     "        for instruction_number in itertools.count(1):\n            yield the_env",
     'two_instructions : ensures[the next instruction sees'),
    ('c11-act-process-gets-non-act-set', 'C11', 'exactly_lib/impls/actors/util/atc_proc_exe_settings.py',
     "        execution_input.environ,", "        environment.proc_exe_settings.environ,",
     'for_atc : ensures['),
]
