"""Deliberate property-breaking changes used to validate the verifier itself (never applied to /repo:
`pyvc.selftest` applies each to a scratch copy of /repo/src under $TMPDIR and removes it afterwards).

Each entry: (id, property, file relative to src/, old text, new text, substring of an obligation that must be
reported as VIOLATION)."""

MUTANTS = [
    ('c13-union-min-max', 'C13', 'exactly_lib/util/interval/w_inversion/combinations.py',
     "        else\n        min(non_none_lowers)\n    )\n    upper = (",
     "        else\n        max(non_none_lowers)\n    )\n    upper = (",
     'combinations:union : ensures[covers-both]'),
    ('c13-upperlimit-inversion-off-by-one', 'C13', 'exactly_lib/util/interval/w_inversion/intervals.py',
     "return LowerLimit(self._upper + 1)", "return LowerLimit(self._upper + 2)",
     'UpperLimit.inversion : ensures[complement-covered]'),
    ('c13-hull-inversion-regression', 'C13', 'exactly_lib/impls/types/interval/matcher_interval.py',
     "        unadapted_inversion = functools.reduce(inversion_operator,\n"
     "                                               [interval.inversion for interval in intervals_of_operands])",
     "        unadapted_inversion = unadapted.inversion",
     '_IntervalComputer._bin_op : ensures[sound]'),
    ('c13-skip-off-by-one', 'C13', 'exactly_lib/impls/types/line_matcher/model_construction.py',
     "        interval.lower - 1\n    )", "        interval.lower\n    )",
     'original_and_model_iter_from_file_line_iter__interval : ensures['),
    ('c13-yield-before-increment', 'C13', 'exactly_lib/impls/types/line_matcher/model_construction.py',
     "        ln += 1\n        yield _line_of(ln, line)", "        yield _line_of(ln, line)\n        ln += 1",
     '_lines_interval : '),
    ('c13-adapt-drops-line-1', 'C13', 'exactly_lib/impls/types/line_matcher/model_construction.py',
     "    if interval.upper is not None and interval.upper < FIRST_LINE_NUMBER:",
     "    if interval.upper is not None and interval.upper <= FIRST_LINE_NUMBER:",
     'adapt_to_line_num_range : ensures[loses-no-line-number]'),
    ('c02-xpass-code', 'C02', 'exactly_lib/processing/exit_values.py',
     "FullExeResultStatus.XPASS: _for_full_result(32 + 1, FullExeResultStatus.XPASS",
     "FullExeResultStatus.XPASS: _for_full_result(32, FullExeResultStatus.XPASS",
     'from_full_result : ensures[table-row]'),
    ('c02-xpass-verdict', 'C02', 'exactly_lib/execution/full_execution/result.py',
     "        elif ps is None:\n            return FullExeResultStatus.XPASS",
     "        elif ps is None:\n            return FullExeResultStatus.PASS",
     'translate_status : ensures[documented-verdict]'),
    ('c02-keep-identifier-on-stdout', 'C02', 'exactly_lib/processing/standalone/result_reporting.py',
     "class _ResultReporterForPreserveAndPrintSandboxDir(TestCaseResultReporter):\n"
     "    def depends_on_result_in_sandbox(self) -> bool:\n        return True\n\n"
     "    def _exit_identifier_printer(self) -> ProcOutputFile:\n        return ProcOutputFile.STDERR",
     "class _ResultReporterForPreserveAndPrintSandboxDir(TestCaseResultReporter):\n"
     "    def depends_on_result_in_sandbox(self) -> bool:\n        return True\n\n"
     "    def _exit_identifier_printer(self) -> ProcOutputFile:\n        return ProcOutputFile.STDOUT",
     '_ResultReporterForPreserveAndPrintSandboxDir.report : ensures['),
    ('c09-rest-off-by-one', 'C09', 'exactly_lib/symbol/symbol_syntax.py',
     "rest = s[pos_after_symbol_name + 2:]", "rest = s[pos_after_symbol_name + 1:]",
     '_find_symbol_reference : ensures[conservation]'),
    ('c09-split-drops-fragments', 'C09', 'exactly_lib/symbol/symbol_syntax.py',
     "ret_val.extend(fragments)", "ret_val = fragments",
     'symbol_syntax:split : loop#0 invariant[preserved]'),
    ('c09-find-no-progress', 'C09', 'exactly_lib/symbol/symbol_syntax.py',
     "sym_ref_pos = s.find(SYMBOL_REFERENCE_BEGIN, pos_after_symbol_name)",
     "sym_ref_pos = s.find(SYMBOL_REFERENCE_BEGIN, sym_ref_pos)",
     '_find_symbol_reference : loop#0 variant[decreases]'),
    ('c09-candidate-skipped', 'C09', 'exactly_lib/symbol/symbol_syntax.py',
     "sym_ref_pos = s.find(SYMBOL_REFERENCE_BEGIN, pos_after_symbol_name)",
     "sym_ref_pos = s.find(SYMBOL_REFERENCE_BEGIN, pos_after_symbol_name + 1)",
     'bounded[symbol_syntax.split]'),
    ('c09-substitution-inside-hard-quotes', 'C09', 'exactly_lib/impls/types/string_/parse_string.py',
     "def parse_fragments_from_token(token: Token) -> List[symbol_syntax.Fragment]:\n"
     "    if token.is_quoted and token.is_hard_quote_type:",
     "def parse_fragments_from_token(token: Token) -> List[symbol_syntax.Fragment]:\n    if False:",
     'parse_fragments_from_token : ensures[fragments-of-the-token]'),
    ('c09-here-doc-marker-prefix-match', 'C09', 'exactly_lib/impls/types/string_/parse_rich_string.py',
     "if line == marker:", "if line.startswith(marker):",
     '_parse_contents : ensures['),
    ('c09-quoted-here-doc-marker', 'C09', 'exactly_lib/impls/types/string_/parse_rich_string.py',
     "        if first_token.is_quoted:\n"
     "            return _raise_not_a_here_doc_exception(token_parser.remaining_part_of_current_line)\n", "",
     'HereDocParser.parse_from_token_parser : ensures[a-quoted-token-is-not-a-here-document]'),
    ('c09-list-runs-onto-next-line', 'C09', 'exactly_lib/impls/types/list_/generic_parser.py',
     "while not token_parser.is_at_eol:", "while token_parser.has_current_line:",
     'an element is parsed only when the rest of the current line is not blank'),
    ('c09-whitespace-split-off', 'C09', 'exactly_lib/section_document/element_parsers/token_stream.py',
     "lexer.whitespace_split = True", "lexer.whitespace_split = False",
     '_new_lexer : ensures[split-on-white-space-only]'),
]
