"""Deliberate property-breaking changes used to validate the verifier itself (never applied to /repo:
`pyvc.selftest` applies each to a scratch copy of /repo/src under $TMPDIR and removes it afterwards).

Each entry: (id, property, file relative to src/, old text, new text, substring of an obligation that must be
reported as VIOLATION)."""

MUTANTS = [
    ('c13-union-min-max', 'C13', 'exactly_lib/util/interval/w_inversion/combinations.py',
     "        else\n        min(non_none_lowers)\n    )\n    upper = (",
     "        else\n        max(non_none_lowers)\n    )\n    upper = (",
     'combinations:union : ensures[covers-both]'),
    ('c13-upperlimit-inversion-off-by-one', 'C13', 'exactly_lib/util/interval/w_inversion/intervals.py',
     "return LowerLimit(self._upper + 1)", "return LowerLimit(self._upper + 2)",
     'UpperLimit.inversion : ensures[complement-covered]'),
    ('c13-hull-inversion-regression', 'C13', 'exactly_lib/impls/types/interval/matcher_interval.py',
     "        unadapted_inversion = functools.reduce(inversion_operator,\n"
     "                                               [interval.inversion for interval in intervals_of_operands])",
     "        unadapted_inversion = unadapted.inversion",
     '_IntervalComputer._bin_op : ensures[sound]'),
    ('c13-skip-off-by-one', 'C13', 'exactly_lib/impls/types/line_matcher/model_construction.py',
     "        interval.lower - 1\n    )", "        interval.lower\n    )",
     'original_and_model_iter_from_file_line_iter__interval : ensures['),
    ('c13-yield-before-increment', 'C13', 'exactly_lib/impls/types/line_matcher/model_construction.py',
     "        ln += 1\n        yield _line_of(ln, line)", "        yield _line_of(ln, line)\n        ln += 1",
     '_lines_interval : '),
    ('c13-adapt-drops-line-1', 'C13', 'exactly_lib/impls/types/line_matcher/model_construction.py',
     "    if interval.upper is not None and interval.upper < FIRST_LINE_NUMBER:",
     "    if interval.upper is not None and interval.upper <= FIRST_LINE_NUMBER:",
     'adapt_to_line_num_range : ensures[loses-no-line-number]'),
    ('c02-xpass-code', 'C02', 'exactly_lib/processing/exit_values.py',
     "FullExeResultStatus.XPASS: _for_full_result(32 + 1, FullExeResultStatus.XPASS",
     "FullExeResultStatus.XPASS: _for_full_result(32, FullExeResultStatus.XPASS",
     'from_full_result : ensures[table-row]'),
    ('c02-xpass-verdict', 'C02', 'exactly_lib/execution/full_execution/result.py',
     "        elif ps is None:\n            return FullExeResultStatus.XPASS",
     "        elif ps is None:\n            return FullExeResultStatus.PASS",
     'translate_status : ensures[documented-verdict]'),
    ('c02-keep-identifier-on-stdout', 'C02', 'exactly_lib/processing/standalone/result_reporting.py',
     "class _ResultReporterForPreserveAndPrintSandboxDir(TestCaseResultReporter):\n"
     "    def depends_on_result_in_sandbox(self) -> bool:\n        return True\n\n"
     "    def _exit_identifier_printer(self) -> ProcOutputFile:\n        return ProcOutputFile.STDERR",
     "class _ResultReporterForPreserveAndPrintSandboxDir(TestCaseResultReporter):\n"
     "    def depends_on_result_in_sandbox(self) -> bool:\n        return True\n\n"
     "    def _exit_identifier_printer(self) -> ProcOutputFile:\n        return ProcOutputFile.STDOUT",
     '_ResultReporterForPreserveAndPrintSandboxDir.report : ensures['),
    ('c06-conjunction-stops-at-first-true', 'C06', 'exactly_lib/impls/types/matcher/impls/combinator_matchers.py',
     "            if not result.value:\n                return tb.build_result(False)",
     "            if result.value:\n                return tb.build_result(False)",
     'Conjunction.matches_w_trace : ensures[value-is-all-of-the-operands]'),
    ('c06-operand-applied-twice', 'C06', 'exactly_lib/impls/types/matcher/impls/combinator_matchers.py',
     "            result = operand.matches_w_trace(model)\n            tb.append_child(result.trace)\n"
     "            if not result.value:",
     "            operand.matches_w_trace(model)\n            result = operand.matches_w_trace(model)\n"
     "            tb.append_child(result.trace)\n            if not result.value:",
     'Conjunction.matches_w_trace : operands are applied in the order given, none twice, none skipped'),
    ('c06-and-builds-disjunction', 'C06', 'exactly_lib/impls/types/matcher/standard_expression_grammar.py',
     "        return combinator_sdvs.Conjunction(operands, model_freezer)",
     "        return combinator_sdvs.Disjunction(operands, model_freezer)",
     'integer-matcher: && builds a Conjunction of the operands in the order given'),
    ('c06-grammar-init-reverses-levels', 'C06', 'exactly_lib/impls/types/expression/grammar.py',
     "            for infix_ops_of_precedence in infix_operators_in_order_of_increasing_precedence\n        ]",
     "            for infix_ops_of_precedence in reversed(infix_operators_in_order_of_increasing_precedence)\n        ]",
     'Grammar.__init__ : ensures[one dict per precedence level, in the order given]'),
    ('c06-sdv-resolve-drops-operand', 'C06', 'exactly_lib/impls/types/matcher/impls/combinator_sdvs.py',
     "class Conjunction(InfixOpImplBase[MODEL]):\n    def resolve(self, symbols: SymbolTable) -> MatcherDdv[MODEL]:\n"
     "        return combinator_matchers.ConjunctionDdv(\n            [operand.resolve(symbols)\n"
     "             for operand in self._operands],",
     "class Conjunction(InfixOpImplBase[MODEL]):\n    def resolve(self, symbols: SymbolTable) -> MatcherDdv[MODEL]:\n"
     "        return combinator_matchers.ConjunctionDdv(\n            [operand.resolve(symbols)\n"
     "             for operand in self._operands[1:]],",
     'combinator_sdvs:Conjunction.resolve : ensures[operands: same length, same order, each the image of its source]'),
    ('c06-reserved-word-accepted', 'C06', 'exactly_lib/impls/types/expression/parser.py',
     "        elif primitive_name in self.grammar.custom_reserved_words:",
     "        elif False and primitive_name in self.grammar.custom_reserved_words:",
     '_Parser.parse_primitive : ensures[unknown primitive or reserved word is never accepted]'),
    ('c06-sequence-skips-first-transformer', 'C06', 'exactly_lib/impls/types/string_transformer/impl/sequence.py',
     "        for transformer in self._non_identity_transformer_functions:\n            model = transformer(model)",
     "        for transformer in self._non_identity_transformer_functions[1:]:\n            model = transformer(model)",
     'SequenceStringTransformer.transform : ensures[left to right'),
    ('c06-operand-after-not-on-current-line', 'C06', 'exactly_lib/impls/types/expression/parser.py',
     "                expression = self.parse_mandatory_primitive(must_be_on_current_line=False)",
     "                expression = self.parse_mandatory_primitive(must_be_on_current_line=True)",
     'bounded[integer-matcher _Parser.parse] unclassified: '),
    # ---- C01 / C03
    ('c01-continue-after-hard-error', 'C01', 'exactly_lib/execution/impl/phase_step_execution.py',
     "            if failure_info is not None:\n                return Failure(",
     "            if failure_info is not None and failure_info.status is not ExecutionFailureStatus.HARD_ERROR:\n"
     "                return Failure(",
     'execute_phase_prim : loop#0 invariant[preserved]'),
    ('c01-hard-error-exception-as-fail', 'C01', 'exactly_lib/execution/impl/single_instruction_executor.py',
     "            ExecutionFailureStatus.HARD_ERROR,\n            element",
     "            ExecutionFailureStatus.FAIL,\n            element",
     'execute_element : ensures[failure has the kind of the failing apply]'),
    ('c01-no-cleanup-after-setup-failure', 'C01', 'exactly_lib/execution/partial_execution/impl/executor.py',
     "            except PhaseStepFailureException as ex:\n                self._cleanup_main(previous_phase)\n"
     "                raise ex",
     "            except PhaseStepFailureException as ex:\n                raise ex",
     '_PartialExecutor.execute : ensures[cleanup: exactly once iff the sandbox exists'),
    ('c01-before-assert-failure-tells-assert', 'C01', 'exactly_lib/execution/partial_execution/impl/executor.py',
     "self._cleanup_main(PreviousPhase.BEFORE_ASSERT)", "self._cleanup_main(PreviousPhase.ASSERT)",
     '_PartialExecutor.execute : ensures[cleanup: exactly once iff the sandbox exists'),
    ('c01-assert-failure-masked-by-pass', 'C01', 'exactly_lib/execution/partial_execution/impl/executor.py',
     "        if failure_from_previous_step is not None:\n"
     "            return self._final_failure_result_from(failure_from_previous_step)",
     "        if failure_from_previous_step is not None and False:\n"
     "            return self._final_failure_result_from(failure_from_previous_step)",
     '_PartialExecutor.execute : ensures[outcome: success iff no step failed'),
    ('c01-cleanup-main-wrong-previous-phase', 'C01', 'exactly_lib/execution/impl/phase_step_executors.py',
     "                             self._os_services,\n                             self._previous_phase))",
     "                             self._os_services,\n                             PreviousPhase.ASSERT))",
     "CleanupMainExecutor.apply : ensures[calls the step's method of the instruction"),
    ('c01-skip-ignored', 'C01', 'exactly_lib/execution/full_execution/execution.py',
     "    if configuration_builder.test_case_status is TestCaseStatus.SKIP:", "    if False:",
     'full_execution.execution:execute : ensures[conf failure / SKIP end the execution'),
    ('c03-cleanup-validated-after-sandbox', 'C03', 'exactly_lib/execution/partial_execution/impl/executor.py',
     "            self._cleanup__validate_pre_sds()\n        except PhaseStepFailureException as ex:\n"
     "            return self._final_failure_result_from(ex.failure)\n\n        self._setup_post_sds_environment()\n",
     "        except PhaseStepFailureException as ex:\n"
     "            return self._final_failure_result_from(ex.failure)\n\n        self._setup_post_sds_environment()\n"
     "        try:\n            self._cleanup__validate_pre_sds()\n        except PhaseStepFailureException as ex:\n"
     "            return self._final_failure_result_from(ex.failure)\n",
     '_PartialExecutor.execute : ensures[invalid case (C03)'),
    ('c03-execute-on-access-error', 'C03', 'exactly_lib/processing/processing_utils.py',
     "            except AccessorError as ex:\n                return processing.Result(processing.Status.ACCESS_ERROR,",
     "            except AccessorError as ex:\n                self._executor.apply(test_case.file_path, None)\n"
     "                return processing.Result(processing.Status.ACCESS_ERROR,",
     'ProcessorFromAccessorAndExecutor.apply : ensures[the test case is executed iff'),
    ('c03-pre-sds-conjunction-runs-post-sds-part', 'C03',
     'exactly_lib/type_val_deps/dep_variants/sdv/sdv_validation.py',
     "        for validator in self.validators:\n            result = validator.validate_pre_sds_if_applicable(environment)",
     "        for validator in self.validators:\n            result = validator.validate_post_sds_if_applicable(environment)",
     'AndSdvValidator.validate_pre_sds_if_applicable : monitor['),
    ('c02-act-output-files-not-forwarded', 'C02', 'exactly_lib/processing/standalone/processor.py',
     "            result_reporter.execute_atc_and_skip_assertions()\n        )",
     "            None\n        )",
     'Processor._executor : ensures[keep-flag-and-act-output-files-reach-the-executor]'),
    ('c02-invalid-usage-exit-code', 'C02', 'exactly_lib/cli/definitions/exit_codes.py',
     "EXIT_INVALID_USAGE = 64", "EXIT_INVALID_USAGE = 65",
     'EXIT_INVALID_USAGE == 64'),
    ('c02-status-instruction-case', 'C02', 'exactly_lib/impls/instructions/configuration/test_case_status.py',
     "        argument = status_element_arg.upper()", "        argument = status_element_arg",
     'status instruction: documented spellings'),
    # ---- C06: each half of fix 35f7247 reverted
    ('c06-revert-fix-35f7247-first-operand-mode', 'C06', 'exactly_lib/impls/types/expression/parser.py',
     "        expression = self.parse_w_maybe_infix_ops(new_line_ignore,\n",
     "        expression = self.parse_w_maybe_infix_ops(new_line_ignore is None,\n",
     'bounded[integer-matcher _Parser.parse] C06-2: '),
    ('c06-revert-fix-35f7247-operand-mode-inside-parentheses', 'C06', 'exactly_lib/impls/types/expression/parser.py',
     "            next_operand = self.parse_w_maybe_infix_ops(\n"
     "                _IS_INSIDE_PARENTHESES if is_inside_parens else _NEXT_EXPR_ON_ANY_LINE,\n"
     "                infix_ops_levels)",
     "            next_operand = self.parse_w_maybe_infix_ops(_NEXT_EXPR_ON_ANY_LINE,\n"
     "                                                        infix_ops_levels)",
     'bounded[integer-matcher _Parser.parse] C06-1: '),
]
