"""Deliberate property-breaking changes used to validate the verifier itself (never applied to /repo:
`pyvc.selftest` applies each to a scratch copy of /repo/src under $TMPDIR and removes it afterwards).

Each entry: (id, property, file relative to src/, old text, new text, substring of an obligation that must be
reported as VIOLATION)."""

MUTANTS = [
    ('c13-union-min-max', 'C13', 'exactly_lib/util/interval/w_inversion/combinations.py',
     "        else\n        min(non_none_lowers)\n    )\n    upper = (",
     "        else\n        max(non_none_lowers)\n    )\n    upper = (",
     'combinations:union : ensures[covers-both]'),
    ('c13-upperlimit-inversion-off-by-one', 'C13', 'exactly_lib/util/interval/w_inversion/intervals.py',
     "return LowerLimit(self._upper + 1)", "return LowerLimit(self._upper + 2)",
     'UpperLimit.inversion : ensures[complement-covered]'),
    ('c13-hull-inversion-regression', 'C13', 'exactly_lib/impls/types/interval/matcher_interval.py',
     "        unadapted_inversion = functools.reduce(inversion_operator,\n"
     "                                               [interval.inversion for interval in intervals_of_operands])",
     "        unadapted_inversion = unadapted.inversion",
     '_IntervalComputer._bin_op : ensures[sound]'),
    ('c13-skip-off-by-one', 'C13', 'exactly_lib/impls/types/line_matcher/model_construction.py',
     "        interval.lower - 1\n    )", "        interval.lower\n    )",
     'original_and_model_iter_from_file_line_iter__interval : ensures['),
    ('c13-yield-before-increment', 'C13', 'exactly_lib/impls/types/line_matcher/model_construction.py',
     "        ln += 1\n        yield _line_of(ln, line)", "        yield _line_of(ln, line)\n        ln += 1",
     '_lines_interval : '),
    ('c13-adapt-drops-line-1', 'C13', 'exactly_lib/impls/types/line_matcher/model_construction.py',
     "    if interval.upper is not None and interval.upper < FIRST_LINE_NUMBER:",
     "    if interval.upper is not None and interval.upper <= FIRST_LINE_NUMBER:",
     'adapt_to_line_num_range : ensures[loses-no-line-number]'),
    ('c02-xpass-code', 'C02', 'exactly_lib/processing/exit_values.py',
     "FullExeResultStatus.XPASS: _for_full_result(32 + 1, FullExeResultStatus.XPASS",
     "FullExeResultStatus.XPASS: _for_full_result(32, FullExeResultStatus.XPASS",
     'from_full_result : ensures[table-row]'),
    ('c02-xpass-verdict', 'C02', 'exactly_lib/execution/full_execution/result.py',
     "        elif ps is None:\n            return FullExeResultStatus.XPASS",
     "        elif ps is None:\n            return FullExeResultStatus.PASS",
     'translate_status : ensures[documented-verdict]'),
    ('c02-keep-identifier-on-stdout', 'C02', 'exactly_lib/processing/standalone/result_reporting.py',
     "class _ResultReporterForPreserveAndPrintSandboxDir(TestCaseResultReporter):\n"
     "    def depends_on_result_in_sandbox(self) -> bool:\n        return True\n\n"
     "    def _exit_identifier_printer(self) -> ProcOutputFile:\n        return ProcOutputFile.STDERR",
     "class _ResultReporterForPreserveAndPrintSandboxDir(TestCaseResultReporter):\n"
     "    def depends_on_result_in_sandbox(self) -> bool:\n        return True\n\n"
     "    def _exit_identifier_printer(self) -> ProcOutputFile:\n        return ProcOutputFile.STDOUT",
     '_ResultReporterForPreserveAndPrintSandboxDir.report : ensures['),
    ('c06-conjunction-stops-at-first-true', 'C06', 'exactly_lib/impls/types/matcher/impls/combinator_matchers.py',
     "            if not result.value:\n                return tb.build_result(False)",
     "            if result.value:\n                return tb.build_result(False)",
     'Conjunction.matches_w_trace : ensures[value-is-all-of-the-operands]'),
    ('c06-operand-applied-twice', 'C06', 'exactly_lib/impls/types/matcher/impls/combinator_matchers.py',
     "            result = operand.matches_w_trace(model)\n            tb.append_child(result.trace)\n"
     "            if not result.value:",
     "            operand.matches_w_trace(model)\n            result = operand.matches_w_trace(model)\n"
     "            tb.append_child(result.trace)\n            if not result.value:",
     'Conjunction.matches_w_trace : operands are applied in the order given, none twice, none skipped'),
    ('c06-and-builds-disjunction', 'C06', 'exactly_lib/impls/types/matcher/standard_expression_grammar.py',
     "        return combinator_sdvs.Conjunction(operands, model_freezer)",
     "        return combinator_sdvs.Disjunction(operands, model_freezer)",
     'integer-matcher: && builds a Conjunction of the operands in the order given'),
    ('c06-grammar-init-reverses-levels', 'C06', 'exactly_lib/impls/types/expression/grammar.py',
     "            for infix_ops_of_precedence in infix_operators_in_order_of_increasing_precedence\n        ]",
     "            for infix_ops_of_precedence in reversed(infix_operators_in_order_of_increasing_precedence)\n        ]",
     'Grammar.__init__ : ensures[one dict per precedence level, in the order given]'),
    ('c06-sdv-resolve-drops-operand', 'C06', 'exactly_lib/impls/types/matcher/impls/combinator_sdvs.py',
     "class Conjunction(InfixOpImplBase[MODEL]):\n    def resolve(self, symbols: SymbolTable) -> MatcherDdv[MODEL]:\n"
     "        return combinator_matchers.ConjunctionDdv(\n            [operand.resolve(symbols)\n"
     "             for operand in self._operands],",
     "class Conjunction(InfixOpImplBase[MODEL]):\n    def resolve(self, symbols: SymbolTable) -> MatcherDdv[MODEL]:\n"
     "        return combinator_matchers.ConjunctionDdv(\n            [operand.resolve(symbols)\n"
     "             for operand in self._operands[1:]],",
     'combinator_sdvs:Conjunction.resolve : ensures[operands: same length, same order, each the image of its source]'),
    ('c06-reserved-word-accepted', 'C06', 'exactly_lib/impls/types/expression/parser.py',
     "        elif primitive_name in self.grammar.custom_reserved_words:",
     "        elif False and primitive_name in self.grammar.custom_reserved_words:",
     '_Parser.parse_primitive : ensures[unknown primitive or reserved word is never accepted]'),
    ('c06-sequence-skips-first-transformer', 'C06', 'exactly_lib/impls/types/string_transformer/impl/sequence.py',
     "        for transformer in self._non_identity_transformer_functions:\n            model = transformer(model)",
     "        for transformer in self._non_identity_transformer_functions[1:]:\n            model = transformer(model)",
     'SequenceStringTransformer.transform : ensures[left to right'),
    ('c06-operand-after-not-on-current-line', 'C06', 'exactly_lib/impls/types/expression/parser.py',
     "                expression = self.parse_mandatory_primitive(must_be_on_current_line=False)",
     "                expression = self.parse_mandatory_primitive(must_be_on_current_line=True)",
     'bounded[integer-matcher _Parser.parse] unclassified: '),
]
