"""Mutants for the extension D7 of C07 (same format as selftest/mutants.py)."""

_SEP = 'exactly_lib/section_document/element_parsers/section_element_parsers.py'
_ODI = 'exactly_lib/section_document/element_parsers/optional_description_and_instruction_parser.py'

_ACT = 'exactly_lib/processing/parse/act_phase_source_parser.py'

_TCP = 'exactly_lib/processing/parse/test_case_parser.py'
_PFD = 'exactly_lib/section_document/element_parsers/parser_for_dictionary_of_instructions.py'

_FIDP = 'exactly_lib/processing/parse/file_inclusion_directive_parser.py'

_RSL = 'exactly_lib/common/report_rendering/parts/source_location.py'

_DPM = 'exactly_lib/section_document/document_parser.py'

MUTANTS = [
    ('d7-entry-root-file-not-among-the-visited-paths', 'C07', _DPM,
     "                           [source_file_path.resolve()],", "                           [],",
     'DocumentParser.parse_source : ensures[parsed-once-as-the-root-file'),
    ('d7-entry-included-files-relative-to-the-current-directory', 'C07', _DPM,
     "        return self._parse(file_location_info.abs_path_of_dir_containing_last_file_base_name,",
     "        return self._parse(file_location_info.abs_path_of_dir_containing_first_file_path,",
     'DocumentParser.parse_source : ensures[parsed-once-as-the-root-file'),

    # = the independently seeded change /verif/seeded/C07-s5 (the referrer directory is no longer accumulated along
    # the chain: the nested helper reads the outer, no longer re-bound, variable)
    ('d7-error-chain-referrer-location-not-accumulated', 'C07', _RSL,
     "    elements = []\n    for link in chain:\n"
     "        elements += _file_inclusion_location(referrer_location, link)\n"
     "        referrer_location = next_referrer_location(referrer_location, link)\n\n"
     "    return elements, referrer_location\n",
     "    elements = []\n    current_referrer_location = referrer_location\n    for link in chain:\n"
     "        elements += _file_inclusion_location(current_referrer_location, link)\n"
     "        current_referrer_location = next_referrer_location(current_referrer_location, link)\n\n"
     "    return elements, current_referrer_location\n",
     'source_location:file_inclusion_chain : '),
    ('d7-error-chain-next-directory-is-the-file-itself', 'C07', _RSL,
     "            return (referrer_location / link.file_path_rel_referrer).parent",
     "            return (referrer_location / link.file_path_rel_referrer)",
     'source_location:file_inclusion_chain : loop#0 invariant[preserved]'),
    ('d7-error-file-name-not-relative-to-the-referrer', 'C07', _RSL,
     "        path_str = os.path.normpath(str(referrer_location / source_file))",
     "        path_str = os.path.normpath(str(source_file))",
     '_line_in_optional_file : ensures[file-name-relative-to-the-referrer-location-and-line-number]'),
    ('d7-error-final-location-relative-to-the-first-referrer', 'C07', _RSL,
     "    lines, referrer_location = file_inclusion_chain(referrer_location,\n",
     "    lines, _ = file_inclusion_chain(referrer_location,\n",
     '_files_and_source_path_leading_to_final_source : ensures[the-final-location-is-relative-to-the-directory'),
    ('d7-error-chain-line-number-off-by-one', 'C07', _RSL,
     "                               location.source.first_line_number),",
     "                               location.source.first_line_number + 1),",
     '_file_inclusion_location : ensures[location-line-then-source-lines]'),

    ('d7-including-line-consumed-before-it-is-recognized', 'C07', _FIDP,
     "        if len(parts) == 0 or parts[0] != self._directive_token:\n            return None\n"
     "        directive_source = line_sequence_from_line(source.current_line)\n        source.consume_current_line()\n",
     "        directive_source = line_sequence_from_line(source.current_line)\n        source.consume_current_line()\n"
     "        if len(parts) == 0 or parts[0] != self._directive_token:\n            return None\n",
     'FileInclusionDirectiveParser.parse : ensures[not-a-directive-consumes-nothing]'),
    ('d7-including-source-is-the-line-after-the-directive', 'C07', _FIDP,
     "        directive_source = line_sequence_from_line(source.current_line)\n        source.consume_current_line()\n",
     "        source.consume_current_line()\n        directive_source = line_sequence_from_line(source.current_line)\n",
     'FileInclusionDirectiveParser.parse : '),
    ('d7-including-directive-not-consumed', 'C07', _FIDP,
     "        directive_source = line_sequence_from_line(source.current_line)\n        source.consume_current_line()\n",
     "        directive_source = line_sequence_from_line(source.current_line)\n",
     'FileInclusionDirectiveParser.parse : '),

    ('d7-apply-setup-and-cleanup-sections-swapped', 'C07', _TCP,
     "            document.elements_for_section_or_empty_if_phase_not_present(phase_identifier.SETUP.section_name),\n"
     "            document.elements_for_section_or_empty_if_phase_not_present(phase_identifier.ACT.section_name),\n",
     "            document.elements_for_section_or_empty_if_phase_not_present(phase_identifier.CLEANUP.section_name),\n"
     "            document.elements_for_section_or_empty_if_phase_not_present(phase_identifier.ACT.section_name),\n",
     'Parser.apply : ensures[each-phase-has-the-elements-of-the-section-with-the-name-of-that-phase'),
    ('d7-lookup-unknown-instruction-loses-its-name', 'C07', _PFD,
     "            raise UnknownInstructionException(line_sequence_from_line(original_source_line),\n"
     "                                              name)",
     "            raise UnknownInstructionException(line_sequence_from_line(original_source_line),\n"
     "                                              '')",
     '_lookup_parser : raises[UnknownInstructionException] ensures'),
    ('d7-extract-name-from-the-whole-line', 'C07', _PFD,
     "self._instruction_name_extractor_function(source.remaining_part_of_current_line)",
     "self._instruction_name_extractor_function(source.current_line_text)",
     '_extract_name : ensures[the-string-the-extractor-returned-for-the-rest-of-the-current-line]'),

    ('d7-act-header-does-not-end-the-act-phase', 'C07', _ACT,
     "            if syntax.is_section_header_line(current_line):\n                break\n            else:\n"
     "                lines_read.append(_un_escape(current_line))\n                source.consume_current_line()\n",
     "            lines_read.append(_un_escape(current_line))\n            source.consume_current_line()\n",
     'ActPhaseParser.parse : loop#0 step'),
    ('d7-act-following-lines-not-un-escaped', 'C07', _ACT,
     "                lines_read.append(_un_escape(current_line))", "                lines_read.append(current_line)",
     'ActPhaseParser.parse : loop#0 '),
    ('d7-act-line-number-taken-after-the-first-line', 'C07', _ACT,
     "        first_line_number = source.current_line_number\n        current_line = source.current_line_text\n"
     "        lines_read = [_un_escape(current_line)]\n        source.consume_current_line()\n",
     "        current_line = source.current_line_text\n"
     "        lines_read = [_un_escape(current_line)]\n        source.consume_current_line()\n"
     "        first_line_number = source.current_line_number\n",
     'ActPhaseParser.parse : ensures[first-line-number-is-that-of-the-current-line]'),
    ('d7-act-line-appended-twice', 'C07', _ACT,
     "                lines_read.append(_un_escape(current_line))\n",
     "                lines_read.append(_un_escape(current_line))\n                lines_read.append(_un_escape(current_line))\n",
     'ActPhaseParser.parse : loop#0 step'),

    ('d7-pacs-trailing-empty-line-kept', 'C07', _SEP,
     "    if len(lines) > 1 and lines[-1] == '':\n        del lines[-1]\n", "",
     'parse_and_compute_source : ensures[lines-are-the-consumed-text]'),
    ('d7-pacs-line-number-taken-after-parsing', 'C07', _SEP,
     "    first_line_number = source.current_line_number\n    len_before_parse = len(source_before)\n"
     "    instruction = parser.parse(fs_location_info, source)\n",
     "    len_before_parse = len(source_before)\n"
     "    instruction = parser.parse(fs_location_info, source)\n    first_line_number = source.current_line_number\n",
     'parse_and_compute_source : ensures[first-line-number-is-that-of-the-first-consumed-character]'),
    ('d7-pacs-one-character-too-many', 'C07', _SEP,
     "    len_instruction_source = len_before_parse - len_after_parse\n",
     "    len_instruction_source = len_before_parse - len_after_parse + 1\n",
     'parse_and_compute_source : ensures[lines-are-the-consumed-text]'),
    ('d7-pacs-description-dropped', 'C07', _SEP,
     "                             InstructionInfo(instruction,\n                                             description))",
     "                             InstructionInfo(instruction,\n                                             None))",
     'parse_and_compute_source : ensures[instruction-and-description-passed-through]'),
    ('d7-consume-space-stops-at-a-comment-line', 'C07', _ODI,
     "            if syntax.is_empty_or_comment_line(source.current_line_text):",
     "            if syntax.is_empty_line(source.current_line_text):",
     '_consume_space_and_comment_lines : ensures[stops-on-the-first-line-or-on-a-line-that-is-neither-blank-nor-comment]'),
    ('d7-consume-space-keeps-the-space-before-the-instruction', 'C07', _ODI,
     "            else:\n                source.consume_initial_space_on_current_line()\n                return\n",
     "            else:\n                return\n",
     '_consume_space_and_comment_lines : ensures[initial-space-of-that-line-is-skipped]'),
    ('d7-consume-space-returns-at-end-of-file', 'C07', _ODI,
     "        raise new_unrecognized_section_element_error_of_single_line(line_in_error_message,\n"
     "                                                                    _ERR_MSG__MISSING_INSTRUCTION_AFTER_DESCRIPTION)",
     "        return",
     '_consume_space_and_comment_lines : ensures[source-well-formed-moved-forward-with-a-current-line]'),
]
