"""Mutants for the contracts of extension L8 (flat-map: ListSdv.resolve / .references, C08 and C10).
Same formats as selftest/mutants.py."""

_LIST_SDV = 'exactly_lib/type_val_deps/types/list_/list_sdv.py'

MUTANTS = [
    ('l8-c08-list-resolve-reversed', 'C08', _LIST_SDV,
     "        for sdv_element in self._elements:\n            value_elements.extend(",
     "        for sdv_element in reversed(self._elements):\n            value_elements.extend(",
     'ListSdv.resolve : loop#0 invariant[preserved]'),
    ('l8-c08-list-resolve-first-item-of-each-piece', 'C08', _LIST_SDV,
     "value_elements.extend(sdv_element.resolve(symbols))",
     "value_elements.extend(sdv_element.resolve(symbols)[:1])",
     'ListSdv.resolve : loop#0 invariant[preserved]'),
    ('l8-c08-list-resolve-keeps-last-piece-only', 'C08', _LIST_SDV,
     "value_elements.extend(sdv_element.resolve(symbols))",
     "value_elements = list(sdv_element.resolve(symbols))",
     'ListSdv.resolve : loop#0 invariant[preserved]'),
    ('l8-c08-list-resolve-drops-first-element', 'C08', _LIST_SDV,
     "        for sdv_element in self._elements:\n            value_elements.extend(",
     "        for sdv_element in self._elements[1:]:\n            value_elements.extend(",
     'ListSdv.resolve : '),
    ('l8-c08-list-references-first-of-each-element', 'C08', _LIST_SDV,
     "ret_val.extend(string_sdv.references)",
     "ret_val.extend(string_sdv.references[:1])",
     'ListSdv.references : loop#0 invariant[preserved]'),
    ('l8-c08-list-references-appended-as-one', 'C08', _LIST_SDV,
     "ret_val.extend(string_sdv.references)",
     "ret_val.append(string_sdv.references)",
     'ListSdv.references : '),
    ('l8-c08-ref-element-reports-no-reference', 'C08', _LIST_SDV,
     "        return self._symbol_reference,\n",
     "        return ()\n",
     'SymbolReferenceElementSdv.references : ensures[exactly its one reference]'),
    ('l8-c08-string-element-reports-references-reversed', 'C08', _LIST_SDV,
     "        return tuple(self._string_sdv.references)\n",
     "        return tuple(reversed(self._string_sdv.references))\n",
     'StringElementSdv.references : ensures[the references of its string, in order]'),
]

BENIGN = [
    ('benign-l8-c08-list-resolve-augmented-assignment', 'C08', _LIST_SDV,
     [("            value_elements.extend(sdv_element.resolve(symbols))\n",
       "            value_elements += sdv_element.resolve(symbols)\n")]),
]

# --- C10: ListSdv.resolve is used through its proved contract (shared from contracts/C08b_list_flatmap.py)
MUTANTS += [
    ('l8-c10-list-resolve-reversed', 'C10', _LIST_SDV,
     "        for sdv_element in self._elements:\n            value_elements.extend(",
     "        for sdv_element in reversed(self._elements):\n            value_elements.extend(",
     'ListSdv.resolve : loop#0 invariant[preserved]'),
    ('l8-c10-arguments-resolved-from-another-list', 'C10', 'exactly_lib/type_val_deps/types/program/sdv/arguments.py',
     "            self._arguments.resolve(symbols),\n",
     "            ListSdv(self._arguments.elements[:1]).resolve(symbols),\n",
     'ProgramSdvForCommand.resolve : ensures['),
    ('l8-c10-arguments-resolved-as-empty-list', 'C10', 'exactly_lib/type_val_deps/types/program/sdv/arguments.py',
     "            self._arguments.resolve(symbols),\n",
     "            ListSdv([]).resolve(symbols),\n",
     'ProgramSdvForCommand.resolve : ensures['),
]

# --- C08: `def TYPE NAME = VALUE` (contracts/C08c_def_types.py)
_DEF_PARSER = 'exactly_lib/impls/instructions/multi_phase/define_symbol/parser.py'
_TYPE_SETUP = 'exactly_lib/impls/instructions/multi_phase/define_symbol/type_setup.py'

MUTANTS += [
    ('l8-c08-def-records-another-type', 'C08', _DEF_PARSER,
     "    return name_str, ts.value_type, value_sdv",
     "    return name_str, type_setup.TYPE_SETUPS['string'].value_type, value_sdv",
     '_parse : ensures[the type named is the type recorded for the symbol'),
    ('l8-c08-def-name-not-checked', 'C08', _DEF_PARSER,
     "    if not symbol_syntax.is_symbol_name(name_str):",
     "    if False:",
     '_parse : ensures[the name is NAME, a valid symbol name]'),
    ('l8-c08-def-value-parsed-as-string', 'C08', _DEF_PARSER,
     "    value_sdv = ts.parser.parse(fs_location_info, parser)",
     "    value_sdv = type_setup.TYPE_SETUPS['string'].parser.parse(fs_location_info, parser)",
     '_parse : ensures[the value is what the value parser registered for TYPE parsed'),
    ('l8-c08-def-superfluous-arguments-accepted', 'C08', _DEF_PARSER,
     "    parser.report_superfluous_arguments_if_not_at_eol()\n",
     "",
     '_parse : ensures[def TYPE NAME = VALUE: type, name, "=", value, end of line'),
    ('l8-c08-def-list-type-parsed-as-path', 'C08', _TYPE_SETUP,
     "type_parser.ListParser()),",
     "type_parser.PathParser()),",
     'every value parser class of type_parser is registered for exactly one type'),
    ('l8-c08-def-type-setup-wrong-value-type', 'C08', _TYPE_SETUP,
     "        self.value_type = type_info.value_type\n",
     "        self.value_type = type_info.value_type if type_info.identifier != 'list' else syntax.ANY_TYPE_INFO_DICT["
     "type_info.value_type].__class__ and __import__('exactly_lib.symbol.value_type').symbol.value_type.ValueType.STRING\n",
     "def type 'list' is the value type of that name"),
]

MUTANTS += [
    ('l8-c08-path-restriction-inverted', 'C08',
     'exactly_lib/type_val_deps/sym_ref/w_str_rend_restrictions/value_restrictions.py',
     "        satisfaction = is_satisfied_by(actual_relativity, self._accepted)\n        if satisfaction:",
     "        satisfaction = is_satisfied_by(actual_relativity, self._accepted)\n        if not satisfaction:",
     'PathAndRelativityRestriction.is_satisfied_by : ensures['),
]

MUTANTS += [
    ('l8-c08-def-container-built-with-another-type', 'C08', _DEF_PARSER,
     "                                                   value_type,\n",
     "                                                   ValueType.STRING,\n",
     'EmbryoParser.parse : ensures[the instruction defines NAME as a container of the parsed value'),
    ('l8-c08-def-container-under-another-name', 'C08', _DEF_PARSER,
     "        sym_def = SymbolDefinition(symbol_name,\n",
     "        sym_def = SymbolDefinition(symbol_name + '_',\n",
     'EmbryoParser.parse : ensures[the instruction defines NAME as a container of the parsed value'),
]

BENIGN += [
    # (the benign edit C08-b4 of the coordinator's list: one dict .get instead of `not in` + indexing)
    ('benign-l8-c08-def-type-lookup-by-get', 'C08', _DEF_PARSER,
     [("    if type_str not in type_setup.TYPE_SETUPS:\n"
       "        err_msg = 'Invalid type: {}\\nExpecting one of {}'.format(type_str, _TYPES_LIST_IN_ERR_MSG)\n"
       "        raise SingleInstructionInvalidArgumentException(err_msg)\n\n"
       "    ts = type_setup.TYPE_SETUPS[type_str]\n",
       "    ts = type_setup.TYPE_SETUPS.get(type_str)\n\n"
       "    if ts is None:\n"
       "        raise SingleInstructionInvalidArgumentException('Unknown symbol type: ' + type_str)\n")]),
]
