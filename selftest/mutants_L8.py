"""Mutants for the contracts of extension L8 (flat-map: ListSdv.resolve / .references, C08 and C10).
Same formats as selftest/mutants.py."""

_LIST_SDV = 'exactly_lib/type_val_deps/types/list_/list_sdv.py'

MUTANTS = [
    ('l8-c08-list-resolve-reversed', 'C08', _LIST_SDV,
     "        for sdv_element in self._elements:\n            value_elements.extend(",
     "        for sdv_element in reversed(self._elements):\n            value_elements.extend(",
     'ListSdv.resolve : loop#0 invariant[preserved]'),
    ('l8-c08-list-resolve-first-item-of-each-piece', 'C08', _LIST_SDV,
     "value_elements.extend(sdv_element.resolve(symbols))",
     "value_elements.extend(sdv_element.resolve(symbols)[:1])",
     'ListSdv.resolve : loop#0 invariant[preserved]'),
    ('l8-c08-list-resolve-keeps-last-piece-only', 'C08', _LIST_SDV,
     "value_elements.extend(sdv_element.resolve(symbols))",
     "value_elements = list(sdv_element.resolve(symbols))",
     'ListSdv.resolve : loop#0 invariant[preserved]'),
    ('l8-c08-list-resolve-drops-first-element', 'C08', _LIST_SDV,
     "        for sdv_element in self._elements:\n            value_elements.extend(",
     "        for sdv_element in self._elements[1:]:\n            value_elements.extend(",
     'ListSdv.resolve : '),
    ('l8-c08-list-references-first-of-each-element', 'C08', _LIST_SDV,
     "ret_val.extend(string_sdv.references)",
     "ret_val.extend(string_sdv.references[:1])",
     'ListSdv.references : loop#0 invariant[preserved]'),
    ('l8-c08-list-references-appended-as-one', 'C08', _LIST_SDV,
     "ret_val.extend(string_sdv.references)",
     "ret_val.append(string_sdv.references)",
     'ListSdv.references : '),
    ('l8-c08-ref-element-reports-no-reference', 'C08', _LIST_SDV,
     "        return self._symbol_reference,\n",
     "        return ()\n",
     'SymbolReferenceElementSdv.references : ensures[exactly its one reference]'),
    ('l8-c08-string-element-reports-references-reversed', 'C08', _LIST_SDV,
     "        return tuple(self._string_sdv.references)\n",
     "        return tuple(reversed(self._string_sdv.references))\n",
     'StringElementSdv.references : ensures[the references of its string, in order]'),
]

BENIGN = [
    ('benign-l8-c08-list-resolve-augmented-assignment', 'C08', _LIST_SDV,
     [("            value_elements.extend(sdv_element.resolve(symbols))\n",
       "            value_elements += sdv_element.resolve(symbols)\n")]),
]

# --- C10: ListSdv.resolve is used through its proved contract (shared from contracts/C08b_list_flatmap.py)
MUTANTS += [
    ('l8-c10-list-resolve-reversed', 'C10', _LIST_SDV,
     "        for sdv_element in self._elements:\n            value_elements.extend(",
     "        for sdv_element in reversed(self._elements):\n            value_elements.extend(",
     'ListSdv.resolve : loop#0 invariant[preserved]'),
    ('l8-c10-arguments-resolved-from-another-list', 'C10', 'exactly_lib/type_val_deps/types/program/sdv/arguments.py',
     "            self._arguments.resolve(symbols),\n",
     "            ListSdv(self._arguments.elements[:1]).resolve(symbols),\n",
     'ProgramSdvForCommand.resolve : ensures['),
    ('l8-c10-arguments-resolved-as-empty-list', 'C10', 'exactly_lib/type_val_deps/types/program/sdv/arguments.py',
     "            self._arguments.resolve(symbols),\n",
     "            ListSdv([]).resolve(symbols),\n",
     'ProgramSdvForCommand.resolve : ensures['),
]
