"""Mutants for contracts/C10c_arguments_fold.py (C10: the fold of the parsed program arguments,
parse_arguments._Parser.parse_from_token_parser).  Same tuple formats as selftest/mutants.py."""

_PA = 'exactly_lib/impls/types/program/parse/parse_arguments.py'
_FOLD = '_Parser.parse_from_token_parser : '

MUTANTS = [
    ('c10c-fold-step-reversed', 'C10', _PA,
     "    return x.new_accumulated(y)", "    return y.new_accumulated(x)",
     _FOLD + 'loop#reduce#0 invariant[preserved]'),
    ('c10c-fold-step-dropped', 'C10', _PA,
     "    return x.new_accumulated(y)", "    return x",
     _FOLD + 'loop#reduce#0 invariant[preserved]'),
    ('c10c-fold-keeps-last-only', 'C10', _PA,
     "    return x.new_accumulated(y)", "    return y",
     _FOLD + 'loop#reduce#0 invariant[preserved]'),
    ('c10c-fold-no-initial-value', 'C10', _PA,
     "functools.reduce(_accumulate, elements, ArgumentsSdv.empty())", "functools.reduce(_accumulate, elements)",
     _FOLD + 'raises_only'),
    ('c10c-fold-initial-not-empty', 'C10', _PA,
     "functools.reduce(_accumulate, elements, ArgumentsSdv.empty())",
     "functools.reduce(_accumulate, elements, ArgumentsSdv.new_without_validation("
     "list_sdvs.from_str_constants(['--extra'])))",
     _FOLD + 'loop#reduce#0 invariant[entry]'),
    ('c10c-mk-element-drops-symbol-reference', 'C10', _PA,
     "list_sdvs.from_elements([sym_ref_element])", "list_sdvs.from_elements([])",
     '_MkElement.reduce_left : ensures['),
    ('c10c-mk-element-replaces-parsed-arguments', 'C10', _PA,
     "    def reduce_right(self, x: ArgumentsSdv) -> ArgumentsSdv:\n        return x",
     "    def reduce_right(self, x: ArgumentsSdv) -> ArgumentsSdv:\n        return ArgumentsSdv.empty()",
     '_MkElement.reduce_right : ensures['),
    # the step (ArgumentsSdv.new_accumulated, interpreted from its source inside the fold): the validator conjunct of
    # the fold invariant sees it too (the step's own contract in C10_process.py reports it as well)
    ('c10c-step-validators-reversed', 'C10', 'exactly_lib/type_val_deps/types/program/sdv/arguments.py',
     "validators = tuple(self._validators) + tuple(arguments_sdv._validators)",
     "validators = tuple(arguments_sdv._validators) + tuple(self._validators)",
     _FOLD + 'loop#reduce#0 invariant[preserved]'),
]

BENIGN = [
    ('benign-c10c-fold-temporary-and-lambda-step', 'C10', _PA,
     [("        return functools.reduce(_accumulate, elements, ArgumentsSdv.empty())",
       "        initial = ArgumentsSdv.empty()\n"
       "        accumulated = functools.reduce(lambda a, b: a.new_accumulated(b), elements, initial)\n"
       "        return accumulated")]),
]
