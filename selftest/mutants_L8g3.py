"""Mutants for contracts/C13c_range_parser.py (extension L8, goal 3): the range-expression parser of `filter -line-nums`.
Same tuple formats as selftest/mutants.py (loaded by it)."""

_RES = 'exactly_lib/impls/types/string_transformer/impl/filter/line_nums/resolvers.py'

MUTANTS = [
    ('l8g3-lower-upper-swapped', 'C13', _RES,
     "            int_validation.evaluate(lower),\n            int_validation.evaluate(upper),\n",
     "            int_validation.evaluate(upper),\n            int_validation.evaluate(lower),\n",
     '_RangeParser.parse : ensures[INT:INT the limits are what the evaluations of the two parts yield, in this order]'),
    ('l8g3-lower-limit-read-as-upper-limit', 'C13', _RES,
     "            elif not limit_parts[1]:\n                return self._lower_limit_range(limit_parts[0])",
     "            elif not limit_parts[1]:\n                return self._upper_limit_range(limit_parts[0])",
     '_RangeParser.parse : ensures[:INT: the upper limit is what the evaluation of the part after the separator yields]'),
    ('l8g3-three-parts-accepted', 'C13', _RES,
     "        if len(limit_parts) > 2:", "        if len(limit_parts) > 3:",
     '_RangeParser.parse : '),
    ('l8g3-lower-limit-off-by-one', 'C13', _RES,
     "        return range_expr.LowerLimitRange(\n            int_validation.evaluate(int_expr)\n        )",
     "        return range_expr.LowerLimitRange(\n            int_validation.evaluate(int_expr) + 1\n        )",
     '_RangeParser.parse : ensures[INT: the lower limit is what the evaluation of the part before the separator yields]'),
    ('l8g3-not-stripped', 'C13', _RES,
     "        limit_parts = self._range_expr.strip().split(", "        limit_parts = self._range_expr.split(",
     '_RangeParser.'),
    ('l8g3-white-space-only-accepted', 'C13', _RES,
     "        if self._range_expr == '' or self._range_expr.isspace():", "        if self._range_expr == '':",
     '_RangeParser._range_expr_must_not_be_empty : raises[ValidationErrorException] when-condition implies raise'),
    ('l8g3-evaluate-changes-the-value', 'C13', 'exactly_lib/impls/types/integer/validation.py',
     "        return python_evaluate(py_expr)\n", "        return python_evaluate(py_expr) + 1\n",
     'validation.evaluate returns python_evaluate(py_expr) itself'),
    ('l8g3-validation-error-not-reported', 'C13', _RES,
     "        except ValidationErrorException as ex:\n            return ex.error\n",
     "        except ValidationErrorException as ex:\n            return None\n",
     '_RangeValidator.validate_pre_sds_if_applicable : ensures[the-expression-is-parsed-once'),
    ('l8g3-contents-made-at-every-reading', 'C13', 'exactly_lib/impls/types/string_source/contents/delegated_with_init.py',
     "        if self._delegated is None:\n            self._delegated = self._initializer()\n",
     "        self._delegated = self._initializer()\n",
     'DelegatedStringSourceContentsWithInit._get_delegated : ensures[the-contents-are-made-by-one-call'),
]

BENIGN = [
    ('benign-l8g3-local-renamed', 'C13', _RES,
     [("        num_parts = len(limit_parts)\n\n        if num_parts == 1:",
       "        n_parts = len(limit_parts)\n\n        if n_parts == 1:")]),
]
