"""Mutants for the extension T14 (C14: texts that are the output of a program -- contracts/C14b_program_output.py;
the quick-tier proof of the lines of a concatenation).  Same format as selftest/mutants.py."""

_CO = 'exactly_lib/impls/types/string_source/command_output/'
_APP = 'ensures[appends exactly the text of the program'
_CONCAT = 'exactly_lib/type_val_prims/string_source/impls/concat.py'

MUTANTS = [
    # --- the lines of a concatenation: the deductive proof of _lines_iter is part of the QUICK tier now
    ('t14-c14-concat-pending-line-replaced', 'C14', _CONCAT,
     "                        last_line_wo_ending_new_line = append_to_last_line_wo_ending_new_line(first_line)\n                    break",
     "                        last_line_wo_ending_new_line = first_line\n                    break",
     '_ConcatStringSourceContents._lines_iter : loop#2 invariant[entry]'),
    ('t14-c14-concat-last-part-forgets-the-pending-line', 'C14', _CONCAT,
     "                if last_line_wo_ending_new_line is not None:\n                    yield last_line_wo_ending_new_line",
     "                pass",
     '_ConcatStringSourceContents._lines_iter : '),
    ('t14-c14-concat-complete-first-line-loses-the-pending-line', 'C14', _CONCAT,
     "                        yield append_to_last_line_wo_ending_new_line(first_line)\n                        last_line_wo_ending_new_line = None",
     "                        yield first_line\n                        last_line_wo_ending_new_line = None",
     '_ConcatStringSourceContents._lines_iter : loop#2 invariant[entry]'),
    # --- the child process writes after what has been FLUSHED (write model of pyvc/textio.py)
    ('t14-c14-exit-ignored-output-not-flushed-before-child', 'C14', _CO + 'exit_ignored.py',
     "        output.flush()\n", "",
     '_WriterBase.write : ' + _APP),
    ('t14-c14-exit-relevant-output-not-flushed-before-child', 'C14', _CO + 'exit_relevant.py',
     "        output.flush()\n", "",
     'StdoutWriter.write : ' + _APP),
    ('t14-c14-transformer-output-not-flushed-before-child', 'C14',
     'exactly_lib/impls/types/string_transformer/impl/sources/transformed_by_program.py',
     "        output.flush()\n", "",
     '_TransformationWriter.write : ' + _APP),
    # --- the output is a SpooledTextFile (freezing the output of a program): fileno() rolls over, the child writes to the disk file
    ('t14-c14-spooled-flush-is-a-no-op', 'C14', 'exactly_lib/util/file_utils/spooled_file.py',
     "    def flush(self):\n        self._file.flush()", "    def flush(self):\n        pass",
     '_WriterBase.write : ' + _APP),
    ('t14-c14-rollover-leaves-the-text-in-the-buffer', 'C14', 'exactly_lib/util/file_utils/spooled_file.py',
     "        newfile.write(mem_buff_contents[mem_buff_position:])\n        newfile.seek(position, 0)",
     "        newfile.seek(position, 0)\n        newfile.write(mem_buff_contents[mem_buff_position:])",
     'SpooledTextFile._rollover : ensures['),
    ('t14-c14-transformed-source-runs-the-program-at-construction', 'C14',
     'exactly_lib/impls/types/string_transformer/impl/sources/transformed_string_sources.py',
     "            _WriterOfTransformed(write, model_contents),\n            file_name,",
     "            _WriterOfTransformed(write, model_contents),\n            file_name,\n        ).as_file and contents_via_write_to.ContentsViaWriteTo(\n            model_contents.tmp_file_space,\n            _WriterOfTransformed(write, model_contents),\n            None,",
     'transformed_string_source_from_writer : '),
    # --- which channel is captured
    ('t14-c14-stderr-writer-captures-stdout', 'C14', _CO + 'exit_ignored.py',
     "class StderrWriter(_WriterBase):\n    def _output_files(self, output: TextIO) -> StdOutputFiles:\n        return StdOutputFiles(\n            subprocess.DEVNULL,\n            output,\n        )",
     "class StderrWriter(_WriterBase):\n    def _output_files(self, output: TextIO) -> StdOutputFiles:\n        return StdOutputFiles(\n            output,\n            subprocess.DEVNULL,\n        )",
     '_WriterBase.write : ' + _APP),
    # --- the exit code matters
    ('t14-c14-exit-relevant-writer-ignores-exit-code', 'C14', _CO + 'exit_relevant.py',
     "        if result.exit_code != 0:\n            raise HardErrorException(\n                top_lvl_error_msg_rendering.non_zero_exit_code_msg(\n                    self._command.structure(),\n                    result.exit_code,\n                    result.stderr,",
     "        if result.exit_code < 0:\n            raise HardErrorException(\n                top_lvl_error_msg_rendering.non_zero_exit_code_msg(\n                    self._command.structure(),\n                    result.exit_code,\n                    result.stderr,",
     'StdoutWriter.write : ensures[returns only if the exit code is 0]'),
    ('t14-c14-stderr-file-creator-returns-path-on-failure', 'C14', _CO + 'exit_relevant.py',
     "            if exit_code != 0:\n                self._raise_hard_error(exit_code, output_f)",
     "            if exit_code < 0:\n                self._raise_hard_error(exit_code, output_f)",
     'StderrFileCreator.create : ensures[returns only if the exit code is 0]'),
    ('t14-c14-stderr-file-creator-captures-stdout', 'C14', _CO + 'exit_relevant.py',
     "                StdOutputFiles(subprocess.DEVNULL, output_file),",
     "                StdOutputFiles(output_file, subprocess.DEVNULL),",
     'StderrFileCreator.create : ensures[the new file holds exactly what the program wrote to stderr]'),
    # --- the contents classes over the real writers
    ('t14-c14-contents-via-file-write-to-skips-the-first-line', 'C14',
     'exactly_lib/impls/types/string_source/contents/contents_via_file.py',
     "        with self.as_file.open() as lines:\n            output.writelines(lines)",
     "        with self.as_file.open() as lines:\n            output.writelines(list(lines)[1:])",
     'ContentsViaFile.write_to : ensures[appends txt (output of the program)]'),
    ('t14-c14-command-output-captures-the-other-channel', 'C14', _CO + 'string_source.py',
     "        if output_channel_to_capture is ProcOutputFile.STDOUT:\n            return exit_ignored.StdoutWriter(",
     "        if output_channel_to_capture is ProcOutputFile.STDERR:\n            return exit_ignored.StdoutWriter(",
     '_contents : ensures[its text is what the program writes to the captured channel]'),
    ('t14-c14-command-output-exit-code-never-ignored', 'C14', _CO + 'string_source.py',
     "    if ignore_exit_code:\n        from . import exit_ignored",
     "    if ignore_exit_code and output_channel_to_capture is ProcOutputFile.STDERR:\n        from . import exit_ignored",
     '_contents : ensures[the exit code matters unless it is to be ignored]'),
    ('t14-c14-transformer-reads-nothing', 'C14',
     'exactly_lib/impls/types/string_transformer/impl/sources/transformed_by_program.py',
     "            stdin=file_ctx_managers.open_file(path_of_file_with_model, 'r'),",
     "            stdin=file_ctx_managers.dev_null(),",
     '_TransformationWriter.write : ' + _APP),
]

BENIGN = [
    # the lines of a concatenation stay proved when the test for a final new-line is written differently
    ('benign-t14-c14-concat-ended-by-new-line-written-with-endswith', 'C14', _CONCAT,
     [("    return s != '' and s[-1] == '\\n'", "    return s.endswith('\\n')")]),
    ('benign-t14-c14-transformed-source-asks-for-the-contents-twice', 'C14',
     'exactly_lib/impls/types/string_transformer/impl/sources/transformed_string_sources.py',
     [("            _WriterOfTransformed(write, model_contents),", "            _WriterOfTransformed(write, model.contents()),")]),
    # a writer that flushes twice still appends exactly the program's text
    ('benign-t14-c14-writer-flushes-twice', 'C14', _CO + 'exit_ignored.py',
     [("        output.flush()\n", "        output.flush()\n        output.flush()\n")]),
]
