"""Mutants for the extension T14 (C14: texts that are the output of a program -- contracts/C14b_program_output.py;
the quick-tier proof of the lines of a concatenation).  Same format as selftest/mutants.py."""

_CO = 'exactly_lib/impls/types/string_source/command_output/'
_APP = 'ensures[appends exactly the text of the program'

MUTANTS = [
    # --- the child process writes after what has been FLUSHED (write model of pyvc/textio.py)
    ('t14-c14-exit-ignored-output-not-flushed-before-child', 'C14', _CO + 'exit_ignored.py',
     "        output.flush()\n", "",
     '_WriterBase.write : ' + _APP),
    ('t14-c14-exit-relevant-output-not-flushed-before-child', 'C14', _CO + 'exit_relevant.py',
     "        output.flush()\n", "",
     'StdoutWriter.write : ' + _APP),
    ('t14-c14-transformer-output-not-flushed-before-child', 'C14',
     'exactly_lib/impls/types/string_transformer/impl/sources/transformed_by_program.py',
     "        output.flush()\n", "",
     '_TransformationWriter.write : ' + _APP),
    # --- which channel is captured
    ('t14-c14-stderr-writer-captures-stdout', 'C14', _CO + 'exit_ignored.py',
     "class StderrWriter(_WriterBase):\n    def _output_files(self, output: TextIO) -> StdOutputFiles:\n        return StdOutputFiles(\n            subprocess.DEVNULL,\n            output,\n        )",
     "class StderrWriter(_WriterBase):\n    def _output_files(self, output: TextIO) -> StdOutputFiles:\n        return StdOutputFiles(\n            output,\n            subprocess.DEVNULL,\n        )",
     '_WriterBase.write : ' + _APP),
    # --- the exit code matters
    ('t14-c14-exit-relevant-writer-ignores-exit-code', 'C14', _CO + 'exit_relevant.py',
     "        if result.exit_code != 0:\n            raise HardErrorException(\n                top_lvl_error_msg_rendering.non_zero_exit_code_msg(\n                    self._command.structure(),\n                    result.exit_code,\n                    result.stderr,",
     "        if result.exit_code < 0:\n            raise HardErrorException(\n                top_lvl_error_msg_rendering.non_zero_exit_code_msg(\n                    self._command.structure(),\n                    result.exit_code,\n                    result.stderr,",
     'StdoutWriter.write : ensures[returns only if the exit code is 0]'),
    ('t14-c14-stderr-file-creator-returns-path-on-failure', 'C14', _CO + 'exit_relevant.py',
     "            if exit_code != 0:\n                self._raise_hard_error(exit_code, output_f)",
     "            if exit_code < 0:\n                self._raise_hard_error(exit_code, output_f)",
     'StderrFileCreator.create : ensures[returns only if the exit code is 0]'),
    ('t14-c14-stderr-file-creator-captures-stdout', 'C14', _CO + 'exit_relevant.py',
     "                StdOutputFiles(subprocess.DEVNULL, output_file),",
     "                StdOutputFiles(output_file, subprocess.DEVNULL),",
     'StderrFileCreator.create : ensures[the new file holds exactly what the program wrote to stderr]'),
    # --- the contents classes over the real writers
    ('t14-c14-contents-via-file-write-to-skips-the-first-line', 'C14',
     'exactly_lib/impls/types/string_source/contents/contents_via_file.py',
     "        with self.as_file.open() as lines:\n            output.writelines(lines)",
     "        with self.as_file.open() as lines:\n            output.writelines(list(lines)[1:])",
     'ContentsViaFile.write_to : ensures[appends txt (output of the program)]'),
    ('t14-c14-transformer-reads-nothing', 'C14',
     'exactly_lib/impls/types/string_transformer/impl/sources/transformed_by_program.py',
     "            stdin=file_ctx_managers.open_file(path_of_file_with_model, 'r'),",
     "            stdin=file_ctx_managers.dev_null(),",
     '_TransformationWriter.write : ' + _APP),
]
