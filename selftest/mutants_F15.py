"""Mutants for the contracts of extension F15 (C15: matches non-full, ...); same format as selftest/mutants.py."""

_NF = 'exactly_lib/impls/types/files_matcher/impl/matches/matches_non_full.py'

_MODELS = 'exactly_lib/impls/types/files_matcher/models.py'

_FL = 'exactly_lib/impls/types/files_source/impl/file_list.py'

MUTANTS = [
    ('c15-nonfull-matcher-inverted', 'C15', _NF,
     "                    if not matching_result.value:", "                    if matching_result.value:",
     'matches_non_full:_Applier.apply : '),
    ('c15-nonfull-matcher-ignored', 'C15', _NF,
     "                if mb_matcher is not None:", "                if mb_matcher is not None and False:",
     'matches_non_full:_Applier.apply : '),
    ('c15-nonfull-true-one-name-early', 'C15', _NF,
     "                if len(expected_files) == 0:", "                if len(expected_files) <= 1:",
     'matches_non_full:_Applier.apply : ensures[the documented verdict of matches (non-full)'),
    ('c15-nonfull-missing-name-accepted', 'C15', _NF,
     "        return MatchingResult(False,\n                              _RendererOfFilesNotFound(",
     "        return MatchingResult(True,\n                              _RendererOfFilesNotFound(",
     'matches_non_full:_Applier.apply : ensures[the documented verdict of matches (non-full)'),
    ('c15-nonfull-name-not-removed', 'C15', _NF,
     "                del expected_files[relative_file_name]\n", "",
     'matches_non_full:_Applier.apply : '),
    ('c15-nonfull-empty-condition-rejected', 'C15', _NF,
     "        if len(self.files_condition.files) == 0:\n            return self._result_true()",
     "        if len(self.files_condition.files) == 0:\n            return MatchingResult(False, None)",
     'matches_non_full:_Applier.apply : ensures[the documented verdict of matches (non-full)'),
    ('c15-nonrec-absolute-path-is-the-root', 'C15', _MODELS,
     "                                         pathlib.Path(dir_entry.name),\n"
     "                                         root_dir_path.child(dir_entry.name))",
     "                                         pathlib.Path(dir_entry.name),\n"
     "                                         root_dir_path)",
     '_FilesGeneratorForNonRecursive.generate : ensures[the direct contents of the directory'),
    ('c15-nonrec-scans-the-parent', 'C15', _MODELS,
     "        return map(mk_model, os.scandir(str(root_dir_path.primitive)))",
     "        return map(mk_model, os.scandir(str(root_dir_path.primitive.parent)))",
     '_FilesGeneratorForNonRecursive.generate : ensures[the direct contents of the directory'),
    ('c15-nonrec-relative-name-prefixed', 'C15', _MODELS,
     "                                         pathlib.Path(dir_entry.name),\n"
     "                                         root_dir_path.child(dir_entry.name))",
     "                                         pathlib.Path('.') / 'x' / dir_entry.name,\n"
     "                                         root_dir_path.child(dir_entry.name))",
     '_FilesGeneratorForNonRecursive.generate : ensures[the direct contents of the directory'),
    ('c15-fc-name-absolute-accepted', 'C15', 'exactly_lib/impls/types/files_condition/impl/literal.py',
     "        path = PurePosixPath(self.path_str)\n        if path.is_absolute():",
     "        path = PurePosixPath(self.path_str)\n        if not path.is_absolute():",
     '_IsRelativePosixPath.validate_pre_sds_if_applicable : ensures['),
    ('c15-filelist-adv-reversed', 'C15', _FL,
     "            file.primitive(environment)\n            for file in self._files\n",
     "            file.primitive(environment)\n            for file in reversed(self._files)\n",
     'file_list:_Adv.primitive : ensures[entry k'),
    ('c15-filelist-ddv-drops-first', 'C15', _FL,
     "            file.value_of_any_dependency(tcds)\n            for file in self._files\n",
     "            file.value_of_any_dependency(tcds)\n            for file in self._files[1:]\n",
     'file_list:_Ddv.value_of_any_dependency : ensures[as many entries]'),
    ('c15-filelist-sdv-reversed', 'C15', _FL,
     "            file_spec.resolve(symbols)\n            for file_spec in self._files\n",
     "            file_spec.resolve(symbols)\n            for file_spec in reversed(self._files)\n",
     'file_list:Sdv.resolve : ensures[entry k'),
    ('c15-walk-descends-into-pruned', 'C15', _MODELS,
     "                if (maybe_entry_for_dir.is_dir() and\n"
     "                        not directory_prune.matches_w_trace(current_file_model.as_file_matcher_model()).value):",
     "                if (maybe_entry_for_dir.is_dir() and\n"
     "                        directory_prune.matches_w_trace(current_file_model.as_file_matcher_model()).value):",
     '_FilesGeneratorForRecursive.generate : loop#1 invariant[preserved]'),
    ('c15-syntax-create-append-swapped', 'C15', 'exactly_lib/impls/types/files_source/syntax.py',
     "EXPLICIT_CREATE = instruction_arguments.ASSIGNMENT_OPERATOR\nEXPLICIT_APPEND = instruction_arguments.APPEND_OPERATOR",
     "EXPLICIT_CREATE = instruction_arguments.APPEND_OPERATOR\nEXPLICIT_APPEND = instruction_arguments.ASSIGNMENT_OPERATOR",
     'FILE-LIST: `=` creates, `+=` appends'),
    ('c15-parse-no-token-appends', 'C15', 'exactly_lib/impls/types/files_source/impl/parse_file_list.py',
     "            return ModificationType.CREATE, None", "            return ModificationType.APPEND, None",
     'ParserOfFileMaker._parse_contents : ensures['),
    ('c15-parse-dir-maker-ignores-modification', 'C15', 'exactly_lib/impls/types/files_source/impl/parse_file_list.py',
     "    return _fm_dir.DirFileMakerSdv(modification, contents)",
     "    return _fm_dir.DirFileMakerSdv(ModificationType.CREATE, contents)",
     'ParserOfFileMaker.parse : ensures['),
    ('c15-fc-validator-drops-matcher-validators', 'C15', 'exactly_lib/impls/types/files_condition/impl/literal.py',
     "                validators.append(mb_matcher.validator)", "                pass",
     '_DdvHelper.validator_validator_of_files : '),
    ('c15-fc-validator-checks-first-name-only', 'C15', 'exactly_lib/impls/types/files_condition/impl/literal.py',
     "            validators.append(_IsRelativePosixPath(file_name.value_when_no_dir_dependencies()))",
     "            if not validators:\n"
     "                validators.append(_IsRelativePosixPath(file_name.value_when_no_dir_dependencies()))",
     '_DdvHelper.validator_validator_of_files : '),
]
