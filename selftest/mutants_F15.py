"""Mutants for the contracts of extension F15 (C15: matches non-full, ...); same format as selftest/mutants.py."""

_NF = 'exactly_lib/impls/types/files_matcher/impl/matches/matches_non_full.py'

_MODELS = 'exactly_lib/impls/types/files_matcher/models.py'

MUTANTS = [
    ('c15-nonfull-matcher-inverted', 'C15', _NF,
     "                    if not matching_result.value:", "                    if matching_result.value:",
     'matches_non_full:_Applier.apply : '),
    ('c15-nonfull-matcher-ignored', 'C15', _NF,
     "                if mb_matcher is not None:", "                if mb_matcher is not None and False:",
     'matches_non_full:_Applier.apply : '),
    ('c15-nonfull-true-one-name-early', 'C15', _NF,
     "                if len(expected_files) == 0:", "                if len(expected_files) <= 1:",
     'matches_non_full:_Applier.apply : ensures[the documented verdict of matches (non-full)'),
    ('c15-nonfull-missing-name-accepted', 'C15', _NF,
     "        return MatchingResult(False,\n                              _RendererOfFilesNotFound(",
     "        return MatchingResult(True,\n                              _RendererOfFilesNotFound(",
     'matches_non_full:_Applier.apply : ensures[the documented verdict of matches (non-full)'),
    ('c15-nonfull-name-not-removed', 'C15', _NF,
     "                del expected_files[relative_file_name]\n", "",
     'matches_non_full:_Applier.apply : '),
    ('c15-nonfull-empty-condition-rejected', 'C15', _NF,
     "        if len(self.files_condition.files) == 0:\n            return self._result_true()",
     "        if len(self.files_condition.files) == 0:\n            return MatchingResult(False, None)",
     'matches_non_full:_Applier.apply : ensures[the documented verdict of matches (non-full)'),
    ('c15-nonrec-absolute-path-is-the-root', 'C15', _MODELS,
     "                                         pathlib.Path(dir_entry.name),\n"
     "                                         root_dir_path.child(dir_entry.name))",
     "                                         pathlib.Path(dir_entry.name),\n"
     "                                         root_dir_path)",
     '_FilesGeneratorForNonRecursive.generate : ensures[the direct contents of the directory'),
    ('c15-nonrec-scans-the-parent', 'C15', _MODELS,
     "        return map(mk_model, os.scandir(str(root_dir_path.primitive)))",
     "        return map(mk_model, os.scandir(str(root_dir_path.primitive.parent)))",
     '_FilesGeneratorForNonRecursive.generate : ensures[the direct contents of the directory'),
    ('c15-nonrec-relative-name-prefixed', 'C15', _MODELS,
     "                                         pathlib.Path(dir_entry.name),\n"
     "                                         root_dir_path.child(dir_entry.name))",
     "                                         pathlib.Path('.') / 'x' / dir_entry.name,\n"
     "                                         root_dir_path.child(dir_entry.name))",
     '_FilesGeneratorForNonRecursive.generate : ensures[the direct contents of the directory'),
]
